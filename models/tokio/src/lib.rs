//! MODEL of the tokio 1.x API subset that remoc compiles against.
//!
//! This crate replaces tokio (via `[patch.crates-io]`) only when remoc is built
//! for solver-based checking.  It is single-threaded, deterministic, has no
//! wakers (futures return `Pending` without registering; the harness executor
//! polls unconditionally, which the `Future` contract allows) and keeps every
//! queue in a plain `Vec`.  The contract of every primitive is taken from the
//! tokio documentation; `/verif/conformance` replays scripted operation
//! sequences against this model and against real tokio and diffs the results.
//!
//! Spawned tasks are pushed onto a harness-visible list (`model::tasks`), so
//! which task runs next is a choice of the harness.
#![cfg_attr(kani, feature(allocator_api))]
#![allow(clippy::all)]
#![allow(dead_code, unused_variables, unused_imports)]

#[macro_use]
pub mod macros;

pub mod io;
#[cfg(kani)]
pub mod maps;
pub mod model;
pub mod runtime;
pub mod sync;
pub mod task;
pub mod time;

pub use task::spawn;

#[doc(hidden)]
pub use tokio_macros::select_priv_clean_pattern;
#[doc(hidden)]
pub use tokio_macros::select_priv_declare_output_enum;

/// `tokio::pin!`
#[macro_export]
macro_rules! pin {
    ($($x:ident),*) => { $(
        let mut $x = $x;
        #[allow(unused_mut)]
        let mut $x = unsafe { ::std::pin::Pin::new_unchecked(&mut $x) };
    )* };
}

pub(crate) mod cell {
    use std::cell::UnsafeCell;
    use std::rc::Rc;

    /// Shared single-threaded state (the model is sequential).
    pub struct Shared<T>(Rc<UnsafeCell<T>>);
    unsafe impl<T> Send for Shared<T> {}
    unsafe impl<T> Sync for Shared<T> {}

    impl<T> Shared<T> {
        pub fn new(t: T) -> Self {
            Self(Rc::new(UnsafeCell::new(t)))
        }
        #[inline]
        pub fn with<R>(&self, f: impl FnOnce(&mut T) -> R) -> R {
            // Safety: single-threaded model; closures passed here never re-enter
            // the same cell.
            f(unsafe { &mut *self.0.get() })
        }
        pub fn ptr(&self) -> *mut T {
            self.0.get()
        }
        pub fn same(&self, other: &Self) -> bool {
            Rc::ptr_eq(&self.0, &other.0)
        }
    }
    impl<T> Clone for Shared<T> {
        fn clone(&self) -> Self {
            Self(self.0.clone())
        }
    }
}
