//! Harness-visible controls of the model: nondeterministic choice, virtual
//! clock and the list of spawned tasks.

use std::future::Future;
use std::pin::Pin;
use std::task::{Context, Poll, RawWaker, RawWakerVTable, Waker};
use std::time::Duration;

/// Nondeterministic value in `0..n` (symbolic under Kani; round-robin natively).
pub fn choose(n: u32) -> u32 {
    #[cfg(kani)]
    {
        let v: u32 = kani::any();
        kani::assume(v < n);
        v
    }
    #[cfg(not(kani))]
    {
        let st = state();
        st.rr = st.rr.wrapping_add(1);
        if n == 0 { 0 } else { st.rr % n }
    }
}

type Task = Pin<Box<dyn Future<Output = ()> + 'static>>;

pub(crate) struct State {
    pub now: Duration,
    pub tasks: Vec<Option<Task>>,
    pub spawned: usize,
    pub rr: u32,
}

static mut STATE: Option<State> = None;

#[allow(static_mut_refs)]
pub(crate) fn state() -> &'static mut State {
    // Safety: the model is single-threaded.
    unsafe {
        if STATE.is_none() {
            STATE = Some(State { now: Duration::ZERO, tasks: Vec::new(), spawned: 0, rr: 0 });
        }
        STATE.as_mut().unwrap()
    }
}

/// Resets clock and task list (native conformance tests call this between scripts).
pub fn reset() {
    let st = state();
    let old = std::mem::take(&mut st.tasks);
    std::mem::forget(old);
    st.now = Duration::ZERO;
    st.spawned = 0;
}

/// Current virtual time.
pub fn now() -> Duration {
    state().now
}

/// Advances the virtual clock.
pub fn advance(d: Duration) {
    let st = state();
    st.now = st.now.saturating_add(d);
}

pub(crate) fn push_task(t: Task) {
    let st = state();
    st.spawned += 1;
    st.tasks.push(Some(t));
}

/// Number of tasks ever spawned.
pub fn spawned_count() -> usize {
    state().spawned
}

/// Number of task slots (finished tasks leave an empty slot).
pub fn task_slots() -> usize {
    state().tasks.len()
}

/// True if the task in slot `i` has not finished yet.
pub fn task_alive(i: usize) -> bool {
    state().tasks.get(i).map(|t| t.is_some()).unwrap_or(false)
}

/// Number of unfinished tasks.
pub fn live_tasks() -> usize {
    state().tasks.iter().filter(|t| t.is_some()).count()
}

/// Polls task `i` once. Returns true if it finished with this poll.
pub fn poll_task(i: usize) -> bool {
    let mut t = match state().tasks.get_mut(i).and_then(|t| t.take()) {
        Some(t) => t,
        None => return false,
    };
    let waker = noop_waker();
    let mut cx = Context::from_waker(&waker);
    match t.as_mut().poll(&mut cx) {
        Poll::Ready(()) => {
            drop(t);
            true
        }
        Poll::Pending => {
            state().tasks[i] = Some(t);
            false
        }
    }
}

/// Polls all live tasks round-robin until no task finishes during a full round
/// or `max_rounds` rounds have been made. Returns the number of finished tasks.
pub fn run_tasks(max_rounds: usize) -> usize {
    let mut finished = 0;
    for _ in 0..max_rounds {
        let mut progress = false;
        let n = task_slots();
        let mut i = 0;
        while i < n {
            if poll_task(i) {
                finished += 1;
                progress = true;
            }
            i += 1;
        }
        if !progress {
            break;
        }
    }
    finished
}

/// Leaks all task state (avoids drop glue in symbolic execution).
pub fn forget_tasks() {
    let old = std::mem::take(&mut state().tasks);
    std::mem::forget(old);
}

fn noop_raw_waker() -> RawWaker {
    fn no_op(_: *const ()) {}
    fn clone(_: *const ()) -> RawWaker {
        noop_raw_waker()
    }
    static VTABLE: RawWakerVTable = RawWakerVTable::new(clone, no_op, no_op, no_op);
    RawWaker::new(std::ptr::null(), &VTABLE)
}

/// A waker that does nothing (the model never registers wakers).
pub fn noop_waker() -> Waker {
    unsafe { Waker::from_raw(noop_raw_waker()) }
}

/// Polls a pinned future once with the no-op waker.
pub fn poll_once<F: Future + ?Sized>(f: Pin<&mut F>) -> Poll<F::Output> {
    let waker = noop_waker();
    let mut cx = Context::from_waker(&waker);
    f.poll(&mut cx)
}

/// Busy-polls a future to completion, running spawned tasks in between.
/// Panics after `max_polls` polls (deadlock in the modelled program).
pub fn block_on<F: Future>(f: F, max_polls: usize) -> F::Output {
    let mut f = std::pin::pin!(f);
    for _ in 0..max_polls {
        if let Poll::Ready(v) = poll_once(f.as_mut()) {
            return v;
        }
        run_tasks(4);
    }
    panic!("model::block_on: future did not complete within max_polls");
}

// ---------------------------------------------------------------------------
// Harness support that needs `unsafe` (remoc itself is `forbid(unsafe_code)`,
// and the harness tree is compiled as part of the remoc crate).

/// Replacement for `std::hash::RandomState::new` (`#[kani::stub]`): fixed SipHash
/// keys, so that `HashMap`/`HashSet` operations on concrete keys stay concrete.
pub fn fixed_random_state() -> std::hash::RandomState {
    // Safety: RandomState consists of two u64 keys.
    unsafe { std::mem::transmute::<(u64, u64), std::hash::RandomState>((0x0123_4567_89ab_cdef, 0x0fed_cba9_8765_4321)) }
}

/// Replacement for `alloc::fmt::format` (`#[kani::stub]`): error texts are not the subject.
pub fn empty_format(_args: std::fmt::Arguments<'_>) -> String {
    String::new()
}

/// A future pinned in its slot and never dropped (drop glue of coroutines holding
/// channels is expensive to execute symbolically).  Dropping the slot leaks the future;
/// use `cancel` to run its destructor when cancellation is the subject.
pub struct Slot<F: Future> {
    fut: std::mem::ManuallyDrop<F>,
    live: bool,
}

impl<F: Future> Slot<F> {
    pub fn new(fut: F) -> Self {
        Slot { fut: std::mem::ManuallyDrop::new(fut), live: true }
    }

    /// Polls the future once.  The slot must not be moved between polls.
    pub fn poll(&mut self) -> Poll<F::Output> {
        assert!(self.live, "slot polled after completion or cancellation");
        // Safety: the harness keeps the slot in one stack location for its whole life.
        let pinned = unsafe { Pin::new_unchecked(&mut *self.fut) };
        let r = poll_once(pinned);
        if r.is_ready() {
            self.live = false;
        }
        r
    }

    /// Drops the future in place (models cancellation of an async operation).
    pub fn cancel(&mut self) {
        if self.live {
            self.live = false;
            unsafe { std::mem::ManuallyDrop::drop(&mut self.fut) };
        }
    }

    pub fn is_live(&self) -> bool {
        self.live
    }
}

// ---------------------------------------------------------------------------
// Typed side log for cfg(remoc_verif) instrumentation (remoc itself forbids `unsafe`, and
// `dyn Any` down-casts are not supported by Kani 0.68).

static mut SIDE_LOG: Vec<(*mut u8, usize)> = Vec::new();

/// Appends a value to the side log.
#[allow(static_mut_refs)]
pub fn side_log_push<E: 'static>(e: E) {
    let p = Box::into_raw(Box::new(e)) as *mut u8;
    // Safety: the model is single-threaded.
    unsafe { SIDE_LOG.push((p, std::mem::size_of::<E>())) }
}

/// Takes the whole side log; every entry must have been pushed with type `E`
/// (checked by size only: callers use one event type per run).
#[allow(static_mut_refs)]
pub fn side_log_take<E: 'static>() -> Vec<E> {
    // Safety: the model is single-threaded; entries were created by `side_log_push::<E>`.
    let log = unsafe { std::mem::take(&mut SIDE_LOG) };
    let mut out = Vec::with_capacity(log.len());
    let mut i = 0;
    while i < log.len() {
        let (p, sz) = log[i];
        assert!(sz == std::mem::size_of::<E>(), "side log entry of another type");
        out.push(*unsafe { Box::from_raw(p as *mut E) });
        i += 1;
    }
    std::mem::forget(log);
    out
}

/// Reinterprets a `u32` as `T` (which must be a 4-byte plain integer type); lets a harness inside
/// remoc (`forbid(unsafe_code)`) write a generic stub for `rand::random::<u32>()`.
pub fn from_u32<T>(v: u32) -> T {
    assert!(std::mem::size_of::<T>() == 4, "from_u32: T must be 4 bytes");
    // Safety: only instantiated with u32.
    unsafe { std::mem::transmute_copy::<u32, T>(&v) }
}
