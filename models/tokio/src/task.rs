//! `tokio::task` — spawn pushes the future onto the harness-visible task list.

use crate::cell::Shared;
use std::fmt;
use std::future::Future;
use std::pin::Pin;
use std::task::{Context, Poll};

struct JoinState<T> {
    result: Option<Result<T, JoinError>>,
    abort: bool,
    finished: bool,
}

pub struct JoinHandle<T> {
    st: Shared<JoinState<T>>,
}

unsafe impl<T: Send> Send for JoinHandle<T> {}
unsafe impl<T: Send> Sync for JoinHandle<T> {}
impl<T> Unpin for JoinHandle<T> {}

impl<T> fmt::Debug for JoinHandle<T> {
    fn fmt(&self, f: &mut fmt::Formatter<'_>) -> fmt::Result {
        f.debug_struct("JoinHandle").finish()
    }
}

#[derive(Debug)]
pub struct JoinError {
    cancelled: bool,
}

impl JoinError {
    pub fn is_cancelled(&self) -> bool {
        self.cancelled
    }
    pub fn is_panic(&self) -> bool {
        !self.cancelled
    }
    pub fn into_panic(self) -> Box<dyn std::any::Any + Send + 'static> {
        Box::new("model panic")
    }
    pub fn try_into_panic(self) -> Result<Box<dyn std::any::Any + Send + 'static>, JoinError> {
        Err(self)
    }
}

impl fmt::Display for JoinError {
    fn fmt(&self, f: &mut fmt::Formatter<'_>) -> fmt::Result {
        write!(f, "task failed")
    }
}
impl std::error::Error for JoinError {}

struct TaskFut<F: Future> {
    fut: Option<F>,
    st: Shared<JoinState<F::Output>>,
}

impl<F: Future> Future for TaskFut<F> {
    type Output = ();
    fn poll(self: Pin<&mut Self>, cx: &mut Context<'_>) -> Poll<()> {
        // Safety: `fut` is never moved out while pinned; it is dropped in place.
        let this = unsafe { self.get_unchecked_mut() };
        if this.st.with(|s| s.abort) {
            this.fut = None;
            this.st.with(|s| {
                s.result = Some(Err(JoinError { cancelled: true }));
                s.finished = true;
            });
            return Poll::Ready(());
        }
        let res = match &mut this.fut {
            Some(f) => unsafe { Pin::new_unchecked(f) }.poll(cx),
            None => return Poll::Ready(()),
        };
        match res {
            Poll::Ready(v) => {
                this.fut = None;
                this.st.with(|s| {
                    s.result = Some(Ok(v));
                    s.finished = true;
                });
                Poll::Ready(())
            }
            Poll::Pending => Poll::Pending,
        }
    }
}

pub fn spawn<F>(fut: F) -> JoinHandle<F::Output>
where
    F: Future + 'static,
    F::Output: 'static,
{
    let st = Shared::new(JoinState { result: None, abort: false, finished: false });
    crate::model::push_task(Box::pin(TaskFut { fut: Some(fut), st: st.clone() }));
    JoinHandle { st }
}

/// The closure runs when the harness polls the task (models "some later time
/// on another thread"; real blocking threads cannot be executed symbolically).
pub fn spawn_blocking<F, R>(f: F) -> JoinHandle<R>
where
    F: FnOnce() -> R + 'static,
    R: 'static,
{
    spawn(async move { f() })
}

impl<T> JoinHandle<T> {
    pub fn abort(&self) {
        self.st.with(|s| {
            if !s.finished {
                s.abort = true;
            }
        });
    }
    pub fn is_finished(&self) -> bool {
        self.st.with(|s| s.finished)
    }
}

impl<T> Future for JoinHandle<T> {
    type Output = Result<T, JoinError>;
    fn poll(self: Pin<&mut Self>, _cx: &mut Context<'_>) -> Poll<Self::Output> {
        match self.st.with(|s| s.result.take()) {
            Some(r) => Poll::Ready(r),
            None => Poll::Pending,
        }
    }
}

pub async fn yield_now() {
    let mut yielded = false;
    std::future::poll_fn(move |_| {
        if yielded {
            Poll::Ready(())
        } else {
            yielded = true;
            Poll::Pending
        }
    })
    .await
}
