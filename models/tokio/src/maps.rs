//! Replacement bodies (`#[kani::stub]`) for the `std::collections::{HashMap, HashSet}`
//! methods remoc's dispatcher and port allocator use.
//!
//! Why: std's hashbrown tables (SSE2 group probing over `write_bytes`-initialised
//! control bytes) are out of CBMC's reach here — a single `HashSet<u32>::insert`
//! does not finish symbolic execution in 200 s even with concrete keys and hasher.
//!
//! How: the stubbed `RandomState::new` hands every new map a unique id (stored where
//! the SipHash key would be); the stubbed methods keep the map's entries in a
//! side `Vec<(K, V)>` found through that id and implement the documented map
//! contract by linear search with `K: Eq`.  The real table stays empty, so its
//! destructor is trivial; entries of a side table are leaked (harnesses do not
//! rely on map destructors).  Iteration order is unspecified for the real type and
//! is insertion order here (removal moves the last entry into the hole: `swap_remove`,
//! because shifting a tail of symbolic length is a symbolic-size memmove for CBMC).

use std::borrow::Borrow;
use std::collections::{HashMap, HashSet};
use std::alloc::Allocator;
use std::hash::{BuildHasher, Hash, RandomState};

const MAGIC: u64 = 0x4d4f_4445_4c4d_4150;
const SLOTS: usize = 24;

static mut NEXT: usize = 0;
static mut ARENA: [*mut (); SLOTS] = [std::ptr::null_mut(); SLOTS];

/// Stub for `std::hash::RandomState::new`.
pub fn map_random_state() -> RandomState {
    unsafe {
        let id = NEXT;
        assert!(id < SLOTS, "map model: too many maps created in one harness");
        NEXT = id + 1;
        // typed field-wise writes (a whole-value transmute makes CBMC lose constant
        // propagation for every struct the state is later moved into)
        let mut rs = std::mem::MaybeUninit::<RandomState>::uninit();
        let p = rs.as_mut_ptr() as *mut u64;
        p.write(id as u64);
        p.add(1).write(MAGIC);
        rs.assume_init()
    }
}

unsafe fn table_of<'a, E, S>(hasher: &S) -> &'a mut Vec<E> {
    unsafe {
        let (id, magic) = *(hasher as *const S as *const (u64, u64));
        assert!(magic == MAGIC, "map model: map was not created through the stubbed RandomState::new");
        #[allow(static_mut_refs)]
        let slot = &mut ARENA[id as usize];
        if slot.is_null() {
            *slot = Box::into_raw(Box::new(Vec::<E>::new())) as *mut ();
        }
        &mut *(*slot as *mut Vec<E>)
    }
}

// ------------------------------------------------------------------ HashMap

pub fn hm_insert<K: Eq + Hash, V, S: BuildHasher, A: Allocator>(map: &mut HashMap<K, V, S, A>, k: K, v: V) -> Option<V> {
    let t: &mut Vec<(K, V)> = unsafe { table_of(map.hasher()) };
    let mut i = 0;
    while i < t.len() {
        if t[i].0 == k {
            return Some(std::mem::replace(&mut t[i].1, v));
        }
        i += 1;
    }
    t.push((k, v));
    None
}

fn hm_find<K, V, Q: ?Sized>(t: &Vec<(K, V)>, k: &Q) -> Option<usize>
where
    K: Borrow<Q>,
    Q: Hash + Eq,
{
    let mut i = 0;
    while i < t.len() {
        if t[i].0.borrow() == k {
            return Some(i);
        }
        i += 1;
    }
    None
}






pub fn hm_len<K, V, S, A: Allocator>(map: &HashMap<K, V, S, A>) -> usize {
    let t: &mut Vec<(K, V)> = unsafe { table_of(map.hasher()) };
    t.len()
}

pub fn hm_is_empty<K, V, S, A: Allocator>(map: &HashMap<K, V, S, A>) -> bool {
    hm_len(map) == 0
}

// ------------------------------------------------------------------ HashSet

fn hs_find<T, Q: ?Sized>(t: &Vec<T>, v: &Q) -> Option<usize>
where
    T: Borrow<Q>,
    Q: Hash + Eq,
{
    let mut i = 0;
    while i < t.len() {
        if t[i].borrow() == v {
            return Some(i);
        }
        i += 1;
    }
    None
}

pub fn hs_insert<T: Eq + Hash, S: BuildHasher, A: Allocator>(set: &mut HashSet<T, S, A>, value: T) -> bool {
    let t: &mut Vec<T> = unsafe { table_of(set.hasher()) };
    if hs_find(t, &value).is_some() {
        false
    } else {
        t.push(value);
        true
    }
}



pub fn hs_len<T, S, A: Allocator>(set: &HashSet<T, S, A>) -> usize {
    let t: &mut Vec<T> = unsafe { table_of(set.hasher()) };
    t.len()
}

pub fn hs_is_empty<T, S, A: Allocator>(set: &HashSet<T, S, A>) -> bool {
    hs_len(set) == 0
}

// Methods with their own generic parameter `Q`: Kani requires a stub to split its
// generics between parent (impl) and method exactly like the original, hence the
// carrier types.

pub struct MapModel<K, V, S, A>(std::marker::PhantomData<(K, V, S, A)>);

impl<K, V, S, A: Allocator> MapModel<K, V, S, A> {
    pub fn get<'a, Q: ?Sized>(map: &'a HashMap<K, V, S, A>, k: &Q) -> Option<&'a V>
    where
        K: Borrow<Q>,
        Q: Hash + Eq,
    {
        let t: &'a mut Vec<(K, V)> = unsafe { table_of(map.hasher()) };
        match hm_find(t, k) {
            Some(i) => Some(&t[i].1),
            None => None,
        }
    }

    pub fn get_mut<'a, Q: ?Sized>(map: &'a mut HashMap<K, V, S, A>, k: &Q) -> Option<&'a mut V>
    where
        K: Borrow<Q>,
        Q: Hash + Eq,
    {
        let t: &'a mut Vec<(K, V)> = unsafe { table_of(map.hasher()) };
        match hm_find(t, k) {
            Some(i) => Some(&mut t[i].1),
            None => None,
        }
    }

    pub fn contains_key<Q: ?Sized>(map: &HashMap<K, V, S, A>, k: &Q) -> bool
    where
        K: Borrow<Q>,
        Q: Hash + Eq,
    {
        let t: &mut Vec<(K, V)> = unsafe { table_of(map.hasher()) };
        hm_find(t, k).is_some()
    }

    pub fn remove_entry<Q: ?Sized>(map: &mut HashMap<K, V, S, A>, k: &Q) -> Option<(K, V)>
    where
        K: Borrow<Q>,
        Q: Hash + Eq,
    {
        let t: &mut Vec<(K, V)> = unsafe { table_of(map.hasher()) };
        match hm_find(t, k) {
            Some(i) => Some(t.swap_remove(i)),
            None => None,
        }
    }

    pub fn remove<Q: ?Sized>(map: &mut HashMap<K, V, S, A>, k: &Q) -> Option<V>
    where
        K: Borrow<Q>,
        Q: Hash + Eq,
    {
        match Self::remove_entry(map, k) {
            Some((_k, v)) => Some(v),
            None => None,
        }
    }
}

pub struct SetModel<T, S, A>(std::marker::PhantomData<(T, S, A)>);

impl<T, S, A: Allocator> SetModel<T, S, A> {
    pub fn contains<Q: ?Sized>(set: &HashSet<T, S, A>, value: &Q) -> bool
    where
        T: Borrow<Q>,
        Q: Hash + Eq,
    {
        let t: &mut Vec<T> = unsafe { table_of(set.hasher()) };
        hs_find(t, value).is_some()
    }

    pub fn remove<Q: ?Sized>(set: &mut HashSet<T, S, A>, value: &Q) -> bool
    where
        T: Borrow<Q>,
        Q: Hash + Eq,
    {
        let t: &mut Vec<T> = unsafe { table_of(set.hasher()) };
        match hs_find(t, value) {
            Some(i) => {
                let _ = t.swap_remove(i);
                true
            }
            None => false,
        }
    }
}

// Constructors: an all-zero table (valid "empty singleton" for the real destructor:
// bucket_mask == 0 means nothing to free) whose hasher slot carries the model id.
// A table built by the real `new()` points at hashbrown's static empty control
// group, and CBMC stops propagating constants through any `Arc` that holds such a
// value (measured), which makes every later lock/len/loop symbolic.

unsafe fn zeroed_with_id<M, S>(hasher_of: fn(&M) -> &S) -> M {
    unsafe {
        let mut m = std::mem::MaybeUninit::<M>::uninit();
        let base = m.as_mut_ptr();
        std::ptr::write_bytes(base as *mut u8, 0, std::mem::size_of::<M>());
        let off = (hasher_of(&*base) as *const S as *const u8).offset_from(base as *const u8);
        let hp = (base as *mut u8).offset(off) as *mut u64;
        let id = NEXT;
        assert!(id < SLOTS, "map model: too many maps created in one harness");
        NEXT = id + 1;
        hp.write(id as u64);
        hp.add(1).write(MAGIC);
        m.assume_init()
    }
}

pub fn hm_new<K, V>() -> HashMap<K, V, RandomState> {
    unsafe { zeroed_with_id::<HashMap<K, V, RandomState>, RandomState>(|m| m.hasher()) }
}

pub fn hs_new<T>() -> HashSet<T, RandomState> {
    unsafe { zeroed_with_id::<HashSet<T, RandomState>, RandomState>(|s| s.hasher()) }
}

/// Stub for `alloc::sync::Arc::drop_slow` (the cold path taken when the last strong reference
/// goes away): the shared value is leaked instead of destroyed.  Reference counts still drop to
/// zero, so `Weak::upgrade` keeps failing exactly when it should; what is lost are the side
/// effects of the shared value's destructor.  Only for harnesses that do not depend on those.
pub fn arc_drop_slow_leak<T: ?Sized, A: Allocator>(_this: &mut std::sync::Arc<T, A>) {}

/// Stub for `<Vec<T> as Drop>::drop`: the elements are leaked (their destructors do not run); the
/// buffer itself is still freed by `RawVec`'s destructor.  Dropping a slice of values whose enum
/// discriminant CBMC no longer sees as constant (values that travelled through nested enums / unions)
/// otherwise unrolls the element drop glue `unwind` times at every such drop site.  Only for
/// harnesses whose property does not depend on the destructor of a value that is still inside a
/// dropped vector (the harness tree leaks its fixtures anyway).
pub fn vec_drop_leak<T, A: Allocator>(_this: &mut Vec<T, A>) {}

/// Same for `<VecDeque<T> as Drop>::drop`.
pub fn vec_deque_drop_leak<T, A: Allocator>(_this: &mut std::collections::VecDeque<T, A>) {}
