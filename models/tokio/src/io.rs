//! `tokio::io` traits as remoc names them (no I/O driver).

use std::io;
use std::ops::DerefMut;
use std::pin::Pin;
use std::task::{Context, Poll};

/// `tokio::io::ReadBuf` over an initialised slice.
pub struct ReadBuf<'a> {
    buf: &'a mut [u8],
    filled: usize,
}

impl<'a> ReadBuf<'a> {
    pub fn new(buf: &'a mut [u8]) -> ReadBuf<'a> {
        ReadBuf { buf, filled: 0 }
    }
    pub fn capacity(&self) -> usize {
        self.buf.len()
    }
    pub fn filled(&self) -> &[u8] {
        &self.buf[..self.filled]
    }
    pub fn filled_mut(&mut self) -> &mut [u8] {
        &mut self.buf[..self.filled]
    }
    pub fn remaining(&self) -> usize {
        self.buf.len() - self.filled
    }
    pub fn initialize_unfilled(&mut self) -> &mut [u8] {
        &mut self.buf[self.filled..]
    }
    pub fn initialize_unfilled_to(&mut self, n: usize) -> &mut [u8] {
        assert!(self.remaining() >= n, "n overflows remaining");
        &mut self.buf[self.filled..self.filled + n]
    }
    pub fn advance(&mut self, n: usize) {
        let new = self.filled.checked_add(n).expect("filled overflow");
        assert!(new <= self.buf.len(), "filled must not become larger than initialized");
        self.filled = new;
    }
    pub fn set_filled(&mut self, n: usize) {
        assert!(n <= self.buf.len());
        self.filled = n;
    }
    pub fn clear(&mut self) {
        self.filled = 0;
    }
    pub fn put_slice(&mut self, buf: &[u8]) {
        assert!(self.remaining() >= buf.len(), "buf.len() must fit in remaining()");
        let end = self.filled + buf.len();
        self.buf[self.filled..end].copy_from_slice(buf);
        self.filled = end;
    }
}

pub trait AsyncRead {
    fn poll_read(self: Pin<&mut Self>, cx: &mut Context<'_>, buf: &mut ReadBuf<'_>) -> Poll<io::Result<()>>;
}

pub trait AsyncWrite {
    fn poll_write(self: Pin<&mut Self>, cx: &mut Context<'_>, buf: &[u8]) -> Poll<Result<usize, io::Error>>;
    fn poll_flush(self: Pin<&mut Self>, cx: &mut Context<'_>) -> Poll<Result<(), io::Error>>;
    fn poll_shutdown(self: Pin<&mut Self>, cx: &mut Context<'_>) -> Poll<Result<(), io::Error>>;
    fn poll_write_vectored(
        self: Pin<&mut Self>, cx: &mut Context<'_>, bufs: &[io::IoSlice<'_>],
    ) -> Poll<Result<usize, io::Error>> {
        let buf = bufs.iter().find(|b| !b.is_empty()).map_or(&[][..], |b| &**b);
        self.poll_write(cx, buf)
    }
    fn is_write_vectored(&self) -> bool {
        false
    }
}

pub trait AsyncBufRead: AsyncRead {
    fn poll_fill_buf(self: Pin<&mut Self>, cx: &mut Context<'_>) -> Poll<io::Result<&[u8]>>;
    fn consume(self: Pin<&mut Self>, amt: usize);
}

macro_rules! deref_async_read {
    () => {
        fn poll_read(mut self: Pin<&mut Self>, cx: &mut Context<'_>, buf: &mut ReadBuf<'_>) -> Poll<io::Result<()>> {
            Pin::new(&mut **self).poll_read(cx, buf)
        }
    };
}
impl<T: ?Sized + AsyncRead + Unpin> AsyncRead for Box<T> {
    deref_async_read!();
}
impl<T: ?Sized + AsyncRead + Unpin> AsyncRead for &mut T {
    deref_async_read!();
}
impl<P> AsyncRead for Pin<P>
where
    P: DerefMut + Unpin,
    P::Target: AsyncRead,
{
    fn poll_read(self: Pin<&mut Self>, cx: &mut Context<'_>, buf: &mut ReadBuf<'_>) -> Poll<io::Result<()>> {
        self.get_mut().as_mut().poll_read(cx, buf)
    }
}

macro_rules! deref_async_write {
    () => {
        fn poll_write(mut self: Pin<&mut Self>, cx: &mut Context<'_>, buf: &[u8]) -> Poll<io::Result<usize>> {
            Pin::new(&mut **self).poll_write(cx, buf)
        }
        fn poll_flush(mut self: Pin<&mut Self>, cx: &mut Context<'_>) -> Poll<io::Result<()>> {
            Pin::new(&mut **self).poll_flush(cx)
        }
        fn poll_shutdown(mut self: Pin<&mut Self>, cx: &mut Context<'_>) -> Poll<io::Result<()>> {
            Pin::new(&mut **self).poll_shutdown(cx)
        }
    };
}
impl<T: ?Sized + AsyncWrite + Unpin> AsyncWrite for Box<T> {
    deref_async_write!();
}
impl<T: ?Sized + AsyncWrite + Unpin> AsyncWrite for &mut T {
    deref_async_write!();
}
impl<P> AsyncWrite for Pin<P>
where
    P: DerefMut + Unpin,
    P::Target: AsyncWrite,
{
    fn poll_write(self: Pin<&mut Self>, cx: &mut Context<'_>, buf: &[u8]) -> Poll<io::Result<usize>> {
        self.get_mut().as_mut().poll_write(cx, buf)
    }
    fn poll_flush(self: Pin<&mut Self>, cx: &mut Context<'_>) -> Poll<io::Result<()>> {
        self.get_mut().as_mut().poll_flush(cx)
    }
    fn poll_shutdown(self: Pin<&mut Self>, cx: &mut Context<'_>) -> Poll<io::Result<()>> {
        self.get_mut().as_mut().poll_shutdown(cx)
    }
}

/// Pass-through stand-in for `tokio::io::BufReader` (no buffering).
pub struct BufReader<R> {
    inner: R,
}
impl<R: AsyncRead> BufReader<R> {
    pub fn new(inner: R) -> Self {
        BufReader { inner }
    }
    pub fn with_capacity(_capacity: usize, inner: R) -> Self {
        BufReader { inner }
    }
    pub fn into_inner(self) -> R {
        self.inner
    }
}
impl<R: AsyncRead + Unpin> AsyncRead for BufReader<R> {
    fn poll_read(mut self: Pin<&mut Self>, cx: &mut Context<'_>, buf: &mut ReadBuf<'_>) -> Poll<io::Result<()>> {
        Pin::new(&mut self.inner).poll_read(cx, buf)
    }
}

/// Pass-through stand-in for `tokio::io::BufWriter` (no buffering).
pub struct BufWriter<W> {
    inner: W,
}
impl<W: AsyncWrite> BufWriter<W> {
    pub fn new(inner: W) -> Self {
        BufWriter { inner }
    }
    pub fn with_capacity(_capacity: usize, inner: W) -> Self {
        BufWriter { inner }
    }
    pub fn into_inner(self) -> W {
        self.inner
    }
}
impl<W: AsyncWrite + Unpin> AsyncWrite for BufWriter<W> {
    fn poll_write(mut self: Pin<&mut Self>, cx: &mut Context<'_>, buf: &[u8]) -> Poll<io::Result<usize>> {
        Pin::new(&mut self.inner).poll_write(cx, buf)
    }
    fn poll_flush(mut self: Pin<&mut Self>, cx: &mut Context<'_>) -> Poll<io::Result<()>> {
        Pin::new(&mut self.inner).poll_flush(cx)
    }
    fn poll_shutdown(mut self: Pin<&mut Self>, cx: &mut Context<'_>) -> Poll<io::Result<()>> {
        Pin::new(&mut self.inner).poll_shutdown(cx)
    }
}

/// Subset of `AsyncReadExt`.
pub trait AsyncReadExt: AsyncRead {
    fn read<'a>(&'a mut self, buf: &'a mut [u8]) -> impl std::future::Future<Output = io::Result<usize>> + 'a
    where
        Self: Unpin,
    {
        std::future::poll_fn(move |cx| {
            let mut rb = ReadBuf::new(buf);
            match Pin::new(&mut *self).poll_read(cx, &mut rb) {
                Poll::Ready(Ok(())) => Poll::Ready(Ok(rb.filled().len())),
                Poll::Ready(Err(e)) => Poll::Ready(Err(e)),
                Poll::Pending => Poll::Pending,
            }
        })
    }
}
impl<R: AsyncRead + ?Sized> AsyncReadExt for R {}

/// Subset of `AsyncWriteExt`.
pub trait AsyncWriteExt: AsyncWrite {
    fn write<'a>(&'a mut self, src: &'a [u8]) -> impl std::future::Future<Output = io::Result<usize>> + 'a
    where
        Self: Unpin,
    {
        std::future::poll_fn(move |cx| Pin::new(&mut *self).poll_write(cx, src))
    }
    fn flush(&mut self) -> impl std::future::Future<Output = io::Result<()>> + '_
    where
        Self: Unpin,
    {
        std::future::poll_fn(move |cx| Pin::new(&mut *self).poll_flush(cx))
    }
    fn shutdown(&mut self) -> impl std::future::Future<Output = io::Result<()>> + '_
    where
        Self: Unpin,
    {
        std::future::poll_fn(move |cx| Pin::new(&mut *self).poll_shutdown(cx))
    }
}
impl<W: AsyncWrite + ?Sized> AsyncWriteExt for W {}
