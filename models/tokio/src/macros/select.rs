// Macro text taken verbatim from tokio 1.49.0 (MIT), doc wrapper removed.
#[macro_export]
macro_rules! select {
    // Uses a declarative macro to do **most** of the work. While it is possible
    // to implement fully with a declarative macro, a procedural macro is used
    // to enable improved error messages.
    //
    // The macro is structured as a tt-muncher. All branches are processed and
    // normalized. Once the input is normalized, it is passed to the top-most
    // rule. When entering the macro, `@{ }` is inserted at the front. This is
    // used to collect the normalized input.
    //
    // The macro only recurses once per branch. This allows using `select!`
    // without requiring the user to increase the recursion limit.

    // All input is normalized, now transform.
    (@ {
        // The index of the future to poll first (in bias mode), or the RNG
        // expression to use to pick a future to poll first.
        start=$start:expr;

        // One `_` for each branch in the `select!` macro. Passing this to
        // `count!` converts $skip to an integer.
        ( $($count:tt)* )

        // Normalized select branches. `( $skip )` is a set of `_` characters.
        // There is one `_` for each select branch **before** this one. Given
        // that all input futures are stored in a tuple, $skip is useful for
        // generating a pattern to reference the future for the current branch.
        // $skip is also used as an argument to `count!`, returning the index of
        // the current select branch.
        $( ( $($skip:tt)* ) $bind:pat = $fut:expr, if $c:expr => $handle:expr, )+

        // Fallback expression used when all select branches have been disabled.
        ; $else:expr

    }) => {{
        // Enter a context where stable "function-like" proc macros can be used.
        //
        // This module is defined within a scope and should not leak out of this
        // macro.
        #[doc(hidden)]
        mod __tokio_select_util {
            // Generate an enum with one variant per select branch
            $crate::select_priv_declare_output_enum!( ( $($count)* ) );
        }

        // `tokio::macros::support` is a public, but doc(hidden) module
        // including a re-export of all types needed by this macro.
        use $crate::macros::support::Future;
        use $crate::macros::support::Pin;
        use $crate::macros::support::Poll::{Ready, Pending};

        const BRANCHES: u32 = $crate::count!( $($count)* );

        let mut disabled: __tokio_select_util::Mask = Default::default();

        // First, invoke all the pre-conditions. For any that return true,
        // set the appropriate bit in `disabled`.
        $(
            if !$c {
                let mask: __tokio_select_util::Mask = 1 << $crate::count!( $($skip)* );
                disabled |= mask;
            }
        )*

        // Create a scope to separate polling from handling the output. This
        // adds borrow checker flexibility when using the macro.
        let mut output = {
            // Store each future directly first (that is, without wrapping the future in a call to
            // `IntoFuture::into_future`). This allows the `$fut` expression to make use of
            // temporary lifetime extension.
            //
            // https://doc.rust-lang.org/1.58.1/reference/destructors.html#temporary-lifetime-extension
            let futures_init = ($( $fut, )+);

            // Safety: Nothing must be moved out of `futures`. This is to
            // satisfy the requirement of `Pin::new_unchecked` called below.
            //
            // We can't use the `pin!` macro for this because `futures` is a
            // tuple and the standard library provides no way to pin-project to
            // the fields of a tuple.
            let mut futures = ($( $crate::macros::support::IntoFuture::into_future(
                        $crate::count_field!( futures_init.$($skip)* )
            ),)+);

            // This assignment makes sure that the `poll_fn` closure only has a
            // reference to the futures, instead of taking ownership of them.
            // This mitigates the issue described in
            // <https://internals.rust-lang.org/t/surprising-soundness-trouble-around-pollfn/17484>
            let mut futures = &mut futures;

            $crate::macros::support::poll_fn(|cx| {
                // Return `Pending` when the task budget is depleted since budget-aware futures
                // are going to yield anyway and other futures will not cooperate.
                ::std::task::ready!($crate::macros::support::poll_budget_available(cx));

                // Track if any branch returns pending. If no branch completes
                // **or** returns pending, this implies that all branches are
                // disabled.
                let mut is_pending = false;

                // Choose a starting index to begin polling the futures at. In
                // practice, this will either be a pseudo-randomly generated
                // number by default, or the constant 0 if `biased;` is
                // supplied.
                let start = $start;

                for i in 0..BRANCHES {
                    let branch;
                    #[allow(clippy::modulo_one)]
                    {
                        branch = (start + i) % BRANCHES;
                    }
                    match branch {
                        $(
                            #[allow(unreachable_code)]
                            $crate::count!( $($skip)* ) => {
                                // First, if the future has previously been
                                // disabled, do not poll it again. This is done
                                // by checking the associated bit in the
                                // `disabled` bit field.
                                let mask = 1 << branch;

                                if disabled & mask == mask {
                                    // The future has been disabled.
                                    continue;
                                }

                                // Extract the future for this branch from the
                                // tuple
                                let ( $($skip,)* fut, .. ) = &mut *futures;

                                // Safety: future is stored on the stack above
                                // and never moved.
                                let mut fut = unsafe { Pin::new_unchecked(fut) };

                                // Try polling it
                                let out = match Future::poll(fut, cx) {
                                    Ready(out) => out,
                                    Pending => {
                                        // Track that at least one future is
                                        // still pending and continue polling.
                                        is_pending = true;
                                        continue;
                                    }
                                };

                                // Disable the future from future polling.
                                disabled |= mask;

                                // The future returned a value, check if matches
                                // the specified pattern.
                                #[allow(unused_variables)]
                                #[allow(unused_mut)]
                                match &out {
                                    $crate::select_priv_clean_pattern!($bind) => {}
                                    _ => continue,
                                }

                                // The select is complete, return the value
                                return Ready($crate::select_variant!(__tokio_select_util::Out, ($($skip)*))(out));
                            }
                        )*
                        _ => unreachable!("reaching this means there probably is an off by one bug"),
                    }
                }

                if is_pending {
                    Pending
                } else {
                    // All branches have been disabled.
                    Ready(__tokio_select_util::Out::Disabled)
                }
            }).await
        };

        match output {
            $(
                $crate::select_variant!(__tokio_select_util::Out, ($($skip)*) ($bind)) => $handle,
            )*
            __tokio_select_util::Out::Disabled => $else,
            _ => unreachable!("failed to match bind"),
        }
    }};

    // ==== Normalize =====

    // These rules match a single `select!` branch and normalize it for
    // processing by the first rule.

    (@ { start=$start:expr; $($t:tt)* } ) => {
        // No `else` branch
        $crate::select!(@{ start=$start; $($t)*; panic!("all branches are disabled and there is no else branch") })
    };
    (@ { start=$start:expr; $($t:tt)* } else => $else:expr $(,)?) => {
        $crate::select!(@{ start=$start; $($t)*; $else })
    };
    (@ { start=$start:expr; ( $($s:tt)* ) $($t:tt)* } $p:pat = $f:expr, if $c:expr => $h:block, $($r:tt)* ) => {
        $crate::select!(@{ start=$start; ($($s)* _) $($t)* ($($s)*) $p = $f, if $c => $h, } $($r)*)
    };
    (@ { start=$start:expr; ( $($s:tt)* ) $($t:tt)* } $p:pat = $f:expr => $h:block, $($r:tt)* ) => {
        $crate::select!(@{ start=$start; ($($s)* _) $($t)* ($($s)*) $p = $f, if true => $h, } $($r)*)
    };
    (@ { start=$start:expr; ( $($s:tt)* ) $($t:tt)* } $p:pat = $f:expr, if $c:expr => $h:block $($r:tt)* ) => {
        $crate::select!(@{ start=$start; ($($s)* _) $($t)* ($($s)*) $p = $f, if $c => $h, } $($r)*)
    };
    (@ { start=$start:expr; ( $($s:tt)* ) $($t:tt)* } $p:pat = $f:expr => $h:block $($r:tt)* ) => {
        $crate::select!(@{ start=$start; ($($s)* _) $($t)* ($($s)*) $p = $f, if true => $h, } $($r)*)
    };
    (@ { start=$start:expr; ( $($s:tt)* ) $($t:tt)* } $p:pat = $f:expr, if $c:expr => $h:expr ) => {
        $crate::select!(@{ start=$start; ($($s)* _) $($t)* ($($s)*) $p = $f, if $c => $h, })
    };
    (@ { start=$start:expr; ( $($s:tt)* ) $($t:tt)* } $p:pat = $f:expr => $h:expr ) => {
        $crate::select!(@{ start=$start; ($($s)* _) $($t)* ($($s)*) $p = $f, if true => $h, })
    };
    (@ { start=$start:expr; ( $($s:tt)* ) $($t:tt)* } $p:pat = $f:expr, if $c:expr => $h:expr, $($r:tt)* ) => {
        $crate::select!(@{ start=$start; ($($s)* _) $($t)* ($($s)*) $p = $f, if $c => $h, } $($r)*)
    };
    (@ { start=$start:expr; ( $($s:tt)* ) $($t:tt)* } $p:pat = $f:expr => $h:expr, $($r:tt)* ) => {
        $crate::select!(@{ start=$start; ($($s)* _) $($t)* ($($s)*) $p = $f, if true => $h, } $($r)*)
    };

    // ===== Entry point =====

    ($(biased;)? else => $else:expr $(,)? ) => {{
        $else
    }};

    (biased; $p:pat = $($t:tt)* ) => {
        $crate::select!(@{ start=0; () } $p = $($t)*)
    };

    ( $p:pat = $($t:tt)* ) => {
        // Randomly generate a starting point. This makes `select!` a bit more
        // fair and avoids always polling the first future.
        $crate::select!(@{ start={ $crate::macros::support::thread_rng_n(BRANCHES) }; () } $p = $($t)*)
    };

    () => {
        compile_error!("select! requires at least one branch.")
    };
}

// And here... we manually list out matches for up to 64 branches... I'm not
// happy about it either, but this is how we manage to use a declarative macro!

#[macro_export]
#[doc(hidden)]
macro_rules! count {
    () => {
        0
    };
    (_) => {
        1
    };
    (_ _) => {
        2
    };
    (_ _ _) => {
        3
    };
    (_ _ _ _) => {
        4
    };
    (_ _ _ _ _) => {
        5
    };
    (_ _ _ _ _ _) => {
        6
    };
    (_ _ _ _ _ _ _) => {
        7
    };
    (_ _ _ _ _ _ _ _) => {
        8
    };
    (_ _ _ _ _ _ _ _ _) => {
        9
    };
    (_ _ _ _ _ _ _ _ _ _) => {
        10
    };
    (_ _ _ _ _ _ _ _ _ _ _) => {
        11
    };
    (_ _ _ _ _ _ _ _ _ _ _ _) => {
        12
    };
    (_ _ _ _ _ _ _ _ _ _ _ _ _) => {
        13
    };
    (_ _ _ _ _ _ _ _ _ _ _ _ _ _) => {
        14
    };
    (_ _ _ _ _ _ _ _ _ _ _ _ _ _ _) => {
        15
    };
    (_ _ _ _ _ _ _ _ _ _ _ _ _ _ _ _) => {
        16
    };
    (_ _ _ _ _ _ _ _ _ _ _ _ _ _ _ _ _) => {
        17
    };
    (_ _ _ _ _ _ _ _ _ _ _ _ _ _ _ _ _ _) => {
        18
    };
    (_ _ _ _ _ _ _ _ _ _ _ _ _ _ _ _ _ _ _) => {
        19
    };
    (_ _ _ _ _ _ _ _ _ _ _ _ _ _ _ _ _ _ _ _) => {
        20
    };
    (_ _ _ _ _ _ _ _ _ _ _ _ _ _ _ _ _ _ _ _ _) => {
        21
    };
    (_ _ _ _ _ _ _ _ _ _ _ _ _ _ _ _ _ _ _ _ _ _) => {
        22
    };
    (_ _ _ _ _ _ _ _ _ _ _ _ _ _ _ _ _ _ _ _ _ _ _) => {
        23
    };
    (_ _ _ _ _ _ _ _ _ _ _ _ _ _ _ _ _ _ _ _ _ _ _ _) => {
        24
    };
    (_ _ _ _ _ _ _ _ _ _ _ _ _ _ _ _ _ _ _ _ _ _ _ _ _) => {
        25
    };
    (_ _ _ _ _ _ _ _ _ _ _ _ _ _ _ _ _ _ _ _ _ _ _ _ _ _) => {
        26
    };
    (_ _ _ _ _ _ _ _ _ _ _ _ _ _ _ _ _ _ _ _ _ _ _ _ _ _ _) => {
        27
    };
    (_ _ _ _ _ _ _ _ _ _ _ _ _ _ _ _ _ _ _ _ _ _ _ _ _ _ _ _) => {
        28
    };
    (_ _ _ _ _ _ _ _ _ _ _ _ _ _ _ _ _ _ _ _ _ _ _ _ _ _ _ _ _) => {
        29
    };
    (_ _ _ _ _ _ _ _ _ _ _ _ _ _ _ _ _ _ _ _ _ _ _ _ _ _ _ _ _ _) => {
        30
    };
    (_ _ _ _ _ _ _ _ _ _ _ _ _ _ _ _ _ _ _ _ _ _ _ _ _ _ _ _ _ _ _) => {
        31
    };
    (_ _ _ _ _ _ _ _ _ _ _ _ _ _ _ _ _ _ _ _ _ _ _ _ _ _ _ _ _ _ _ _) => {
        32
    };
    (_ _ _ _ _ _ _ _ _ _ _ _ _ _ _ _ _ _ _ _ _ _ _ _ _ _ _ _ _ _ _ _ _) => {
        33
    };
    (_ _ _ _ _ _ _ _ _ _ _ _ _ _ _ _ _ _ _ _ _ _ _ _ _ _ _ _ _ _ _ _ _ _) => {
        34
    };
    (_ _ _ _ _ _ _ _ _ _ _ _ _ _ _ _ _ _ _ _ _ _ _ _ _ _ _ _ _ _ _ _ _ _ _) => {
        35
    };
    (_ _ _ _ _ _ _ _ _ _ _ _ _ _ _ _ _ _ _ _ _ _ _ _ _ _ _ _ _ _ _ _ _ _ _ _) => {
        36
    };
    (_ _ _ _ _ _ _ _ _ _ _ _ _ _ _ _ _ _ _ _ _ _ _ _ _ _ _ _ _ _ _ _ _ _ _ _ _) => {
        37
    };
    (_ _ _ _ _ _ _ _ _ _ _ _ _ _ _ _ _ _ _ _ _ _ _ _ _ _ _ _ _ _ _ _ _ _ _ _ _ _) => {
        38
    };
    (_ _ _ _ _ _ _ _ _ _ _ _ _ _ _ _ _ _ _ _ _ _ _ _ _ _ _ _ _ _ _ _ _ _ _ _ _ _ _) => {
        39
    };
    (_ _ _ _ _ _ _ _ _ _ _ _ _ _ _ _ _ _ _ _ _ _ _ _ _ _ _ _ _ _ _ _ _ _ _ _ _ _ _ _) => {
        40
    };
    (_ _ _ _ _ _ _ _ _ _ _ _ _ _ _ _ _ _ _ _ _ _ _ _ _ _ _ _ _ _ _ _ _ _ _ _ _ _ _ _ _) => {
        41
    };
    (_ _ _ _ _ _ _ _ _ _ _ _ _ _ _ _ _ _ _ _ _ _ _ _ _ _ _ _ _ _ _ _ _ _ _ _ _ _ _ _ _ _) => {
        42
    };
    (_ _ _ _ _ _ _ _ _ _ _ _ _ _ _ _ _ _ _ _ _ _ _ _ _ _ _ _ _ _ _ _ _ _ _ _ _ _ _ _ _ _ _) => {
        43
    };
    (_ _ _ _ _ _ _ _ _ _ _ _ _ _ _ _ _ _ _ _ _ _ _ _ _ _ _ _ _ _ _ _ _ _ _ _ _ _ _ _ _ _ _ _) => {
        44
    };
    (_ _ _ _ _ _ _ _ _ _ _ _ _ _ _ _ _ _ _ _ _ _ _ _ _ _ _ _ _ _ _ _ _ _ _ _ _ _ _ _ _ _ _ _ _) => {
        45
    };
    (_ _ _ _ _ _ _ _ _ _ _ _ _ _ _ _ _ _ _ _ _ _ _ _ _ _ _ _ _ _ _ _ _ _ _ _ _ _ _ _ _ _ _ _ _ _) => {
        46
    };
    (_ _ _ _ _ _ _ _ _ _ _ _ _ _ _ _ _ _ _ _ _ _ _ _ _ _ _ _ _ _ _ _ _ _ _ _ _ _ _ _ _ _ _ _ _ _ _) => {
        47
    };
    (_ _ _ _ _ _ _ _ _ _ _ _ _ _ _ _ _ _ _ _ _ _ _ _ _ _ _ _ _ _ _ _ _ _ _ _ _ _ _ _ _ _ _ _ _ _ _ _) => {
        48
    };
    (_ _ _ _ _ _ _ _ _ _ _ _ _ _ _ _ _ _ _ _ _ _ _ _ _ _ _ _ _ _ _ _ _ _ _ _ _ _ _ _ _ _ _ _ _ _ _ _ _) => {
        49
    };
    (_ _ _ _ _ _ _ _ _ _ _ _ _ _ _ _ _ _ _ _ _ _ _ _ _ _ _ _ _ _ _ _ _ _ _ _ _ _ _ _ _ _ _ _ _ _ _ _ _ _) => {
        50
    };
    (_ _ _ _ _ _ _ _ _ _ _ _ _ _ _ _ _ _ _ _ _ _ _ _ _ _ _ _ _ _ _ _ _ _ _ _ _ _ _ _ _ _ _ _ _ _ _ _ _ _ _) => {
        51
    };
    (_ _ _ _ _ _ _ _ _ _ _ _ _ _ _ _ _ _ _ _ _ _ _ _ _ _ _ _ _ _ _ _ _ _ _ _ _ _ _ _ _ _ _ _ _ _ _ _ _ _ _ _) => {
        52
    };
    (_ _ _ _ _ _ _ _ _ _ _ _ _ _ _ _ _ _ _ _ _ _ _ _ _ _ _ _ _ _ _ _ _ _ _ _ _ _ _ _ _ _ _ _ _ _ _ _ _ _ _ _ _) => {
        53
    };
    (_ _ _ _ _ _ _ _ _ _ _ _ _ _ _ _ _ _ _ _ _ _ _ _ _ _ _ _ _ _ _ _ _ _ _ _ _ _ _ _ _ _ _ _ _ _ _ _ _ _ _ _ _ _) => {
        54
    };
    (_ _ _ _ _ _ _ _ _ _ _ _ _ _ _ _ _ _ _ _ _ _ _ _ _ _ _ _ _ _ _ _ _ _ _ _ _ _ _ _ _ _ _ _ _ _ _ _ _ _ _ _ _ _ _) => {
        55
    };
    (_ _ _ _ _ _ _ _ _ _ _ _ _ _ _ _ _ _ _ _ _ _ _ _ _ _ _ _ _ _ _ _ _ _ _ _ _ _ _ _ _ _ _ _ _ _ _ _ _ _ _ _ _ _ _ _) => {
        56
    };
    (_ _ _ _ _ _ _ _ _ _ _ _ _ _ _ _ _ _ _ _ _ _ _ _ _ _ _ _ _ _ _ _ _ _ _ _ _ _ _ _ _ _ _ _ _ _ _ _ _ _ _ _ _ _ _ _ _) => {
        57
    };
    (_ _ _ _ _ _ _ _ _ _ _ _ _ _ _ _ _ _ _ _ _ _ _ _ _ _ _ _ _ _ _ _ _ _ _ _ _ _ _ _ _ _ _ _ _ _ _ _ _ _ _ _ _ _ _ _ _ _) => {
        58
    };
    (_ _ _ _ _ _ _ _ _ _ _ _ _ _ _ _ _ _ _ _ _ _ _ _ _ _ _ _ _ _ _ _ _ _ _ _ _ _ _ _ _ _ _ _ _ _ _ _ _ _ _ _ _ _ _ _ _ _ _) => {
        59
    };
    (_ _ _ _ _ _ _ _ _ _ _ _ _ _ _ _ _ _ _ _ _ _ _ _ _ _ _ _ _ _ _ _ _ _ _ _ _ _ _ _ _ _ _ _ _ _ _ _ _ _ _ _ _ _ _ _ _ _ _ _) => {
        60
    };
    (_ _ _ _ _ _ _ _ _ _ _ _ _ _ _ _ _ _ _ _ _ _ _ _ _ _ _ _ _ _ _ _ _ _ _ _ _ _ _ _ _ _ _ _ _ _ _ _ _ _ _ _ _ _ _ _ _ _ _ _ _) => {
        61
    };
    (_ _ _ _ _ _ _ _ _ _ _ _ _ _ _ _ _ _ _ _ _ _ _ _ _ _ _ _ _ _ _ _ _ _ _ _ _ _ _ _ _ _ _ _ _ _ _ _ _ _ _ _ _ _ _ _ _ _ _ _ _ _) => {
        62
    };
    (_ _ _ _ _ _ _ _ _ _ _ _ _ _ _ _ _ _ _ _ _ _ _ _ _ _ _ _ _ _ _ _ _ _ _ _ _ _ _ _ _ _ _ _ _ _ _ _ _ _ _ _ _ _ _ _ _ _ _ _ _ _ _) => {
        63
    };
    (_ _ _ _ _ _ _ _ _ _ _ _ _ _ _ _ _ _ _ _ _ _ _ _ _ _ _ _ _ _ _ _ _ _ _ _ _ _ _ _ _ _ _ _ _ _ _ _ _ _ _ _ _ _ _ _ _ _ _ _ _ _ _ _) => {
        64
    };
}

#[macro_export]
#[doc(hidden)]
macro_rules! count_field {
    ($var:ident. ) => {
        $var.0
    };
    ($var:ident. _) => {
        $var.1
    };
    ($var:ident. _ _) => {
        $var.2
    };
    ($var:ident. _ _ _) => {
        $var.3
    };
    ($var:ident. _ _ _ _) => {
        $var.4
    };
    ($var:ident. _ _ _ _ _) => {
        $var.5
    };
    ($var:ident. _ _ _ _ _ _) => {
        $var.6
    };
    ($var:ident. _ _ _ _ _ _ _) => {
        $var.7
    };
    ($var:ident. _ _ _ _ _ _ _ _) => {
        $var.8
    };
    ($var:ident. _ _ _ _ _ _ _ _ _) => {
        $var.9
    };
    ($var:ident. _ _ _ _ _ _ _ _ _ _) => {
        $var.10
    };
    ($var:ident. _ _ _ _ _ _ _ _ _ _ _) => {
        $var.11
    };
    ($var:ident. _ _ _ _ _ _ _ _ _ _ _ _) => {
        $var.12
    };
    ($var:ident. _ _ _ _ _ _ _ _ _ _ _ _ _) => {
        $var.13
    };
    ($var:ident. _ _ _ _ _ _ _ _ _ _ _ _ _ _) => {
        $var.14
    };
    ($var:ident. _ _ _ _ _ _ _ _ _ _ _ _ _ _ _) => {
        $var.15
    };
    ($var:ident. _ _ _ _ _ _ _ _ _ _ _ _ _ _ _ _) => {
        $var.16
    };
    ($var:ident. _ _ _ _ _ _ _ _ _ _ _ _ _ _ _ _ _) => {
        $var.17
    };
    ($var:ident. _ _ _ _ _ _ _ _ _ _ _ _ _ _ _ _ _ _) => {
        $var.18
    };
    ($var:ident. _ _ _ _ _ _ _ _ _ _ _ _ _ _ _ _ _ _ _) => {
        $var.19
    };
    ($var:ident. _ _ _ _ _ _ _ _ _ _ _ _ _ _ _ _ _ _ _ _) => {
        $var.20
    };
    ($var:ident. _ _ _ _ _ _ _ _ _ _ _ _ _ _ _ _ _ _ _ _ _) => {
        $var.21
    };
    ($var:ident. _ _ _ _ _ _ _ _ _ _ _ _ _ _ _ _ _ _ _ _ _ _) => {
        $var.22
    };
    ($var:ident. _ _ _ _ _ _ _ _ _ _ _ _ _ _ _ _ _ _ _ _ _ _ _) => {
        $var.23
    };
    ($var:ident. _ _ _ _ _ _ _ _ _ _ _ _ _ _ _ _ _ _ _ _ _ _ _ _) => {
        $var.24
    };
    ($var:ident. _ _ _ _ _ _ _ _ _ _ _ _ _ _ _ _ _ _ _ _ _ _ _ _ _) => {
        $var.25
    };
    ($var:ident. _ _ _ _ _ _ _ _ _ _ _ _ _ _ _ _ _ _ _ _ _ _ _ _ _ _) => {
        $var.26
    };
    ($var:ident. _ _ _ _ _ _ _ _ _ _ _ _ _ _ _ _ _ _ _ _ _ _ _ _ _ _ _) => {
        $var.27
    };
    ($var:ident. _ _ _ _ _ _ _ _ _ _ _ _ _ _ _ _ _ _ _ _ _ _ _ _ _ _ _ _) => {
        $var.28
    };
    ($var:ident. _ _ _ _ _ _ _ _ _ _ _ _ _ _ _ _ _ _ _ _ _ _ _ _ _ _ _ _ _) => {
        $var.29
    };
    ($var:ident. _ _ _ _ _ _ _ _ _ _ _ _ _ _ _ _ _ _ _ _ _ _ _ _ _ _ _ _ _ _) => {
        $var.30
    };
    ($var:ident. _ _ _ _ _ _ _ _ _ _ _ _ _ _ _ _ _ _ _ _ _ _ _ _ _ _ _ _ _ _ _) => {
        $var.31
    };
    ($var:ident. _ _ _ _ _ _ _ _ _ _ _ _ _ _ _ _ _ _ _ _ _ _ _ _ _ _ _ _ _ _ _ _) => {
        $var.32
    };
    ($var:ident. _ _ _ _ _ _ _ _ _ _ _ _ _ _ _ _ _ _ _ _ _ _ _ _ _ _ _ _ _ _ _ _ _) => {
        $var.33
    };
    ($var:ident. _ _ _ _ _ _ _ _ _ _ _ _ _ _ _ _ _ _ _ _ _ _ _ _ _ _ _ _ _ _ _ _ _ _) => {
        $var.34
    };
    ($var:ident. _ _ _ _ _ _ _ _ _ _ _ _ _ _ _ _ _ _ _ _ _ _ _ _ _ _ _ _ _ _ _ _ _ _ _) => {
        $var.35
    };
    ($var:ident. _ _ _ _ _ _ _ _ _ _ _ _ _ _ _ _ _ _ _ _ _ _ _ _ _ _ _ _ _ _ _ _ _ _ _ _) => {
        $var.36
    };
    ($var:ident. _ _ _ _ _ _ _ _ _ _ _ _ _ _ _ _ _ _ _ _ _ _ _ _ _ _ _ _ _ _ _ _ _ _ _ _ _) => {
        $var.37
    };
    ($var:ident. _ _ _ _ _ _ _ _ _ _ _ _ _ _ _ _ _ _ _ _ _ _ _ _ _ _ _ _ _ _ _ _ _ _ _ _ _ _) => {
        $var.38
    };
    ($var:ident. _ _ _ _ _ _ _ _ _ _ _ _ _ _ _ _ _ _ _ _ _ _ _ _ _ _ _ _ _ _ _ _ _ _ _ _ _ _ _) => {
        $var.39
    };
    ($var:ident. _ _ _ _ _ _ _ _ _ _ _ _ _ _ _ _ _ _ _ _ _ _ _ _ _ _ _ _ _ _ _ _ _ _ _ _ _ _ _ _) => {
        $var.40
    };
    ($var:ident. _ _ _ _ _ _ _ _ _ _ _ _ _ _ _ _ _ _ _ _ _ _ _ _ _ _ _ _ _ _ _ _ _ _ _ _ _ _ _ _ _) => {
        $var.41
    };
    ($var:ident. _ _ _ _ _ _ _ _ _ _ _ _ _ _ _ _ _ _ _ _ _ _ _ _ _ _ _ _ _ _ _ _ _ _ _ _ _ _ _ _ _ _) => {
        $var.42
    };
    ($var:ident. _ _ _ _ _ _ _ _ _ _ _ _ _ _ _ _ _ _ _ _ _ _ _ _ _ _ _ _ _ _ _ _ _ _ _ _ _ _ _ _ _ _ _) => {
        $var.43
    };
    ($var:ident. _ _ _ _ _ _ _ _ _ _ _ _ _ _ _ _ _ _ _ _ _ _ _ _ _ _ _ _ _ _ _ _ _ _ _ _ _ _ _ _ _ _ _ _) => {
        $var.44
    };
    ($var:ident. _ _ _ _ _ _ _ _ _ _ _ _ _ _ _ _ _ _ _ _ _ _ _ _ _ _ _ _ _ _ _ _ _ _ _ _ _ _ _ _ _ _ _ _ _) => {
        $var.45
    };
    ($var:ident. _ _ _ _ _ _ _ _ _ _ _ _ _ _ _ _ _ _ _ _ _ _ _ _ _ _ _ _ _ _ _ _ _ _ _ _ _ _ _ _ _ _ _ _ _ _) => {
        $var.46
    };
    ($var:ident. _ _ _ _ _ _ _ _ _ _ _ _ _ _ _ _ _ _ _ _ _ _ _ _ _ _ _ _ _ _ _ _ _ _ _ _ _ _ _ _ _ _ _ _ _ _ _) => {
        $var.47
    };
    ($var:ident. _ _ _ _ _ _ _ _ _ _ _ _ _ _ _ _ _ _ _ _ _ _ _ _ _ _ _ _ _ _ _ _ _ _ _ _ _ _ _ _ _ _ _ _ _ _ _ _) => {
        $var.48
    };
    ($var:ident. _ _ _ _ _ _ _ _ _ _ _ _ _ _ _ _ _ _ _ _ _ _ _ _ _ _ _ _ _ _ _ _ _ _ _ _ _ _ _ _ _ _ _ _ _ _ _ _ _) => {
        $var.49
    };
    ($var:ident. _ _ _ _ _ _ _ _ _ _ _ _ _ _ _ _ _ _ _ _ _ _ _ _ _ _ _ _ _ _ _ _ _ _ _ _ _ _ _ _ _ _ _ _ _ _ _ _ _ _) => {
        $var.50
    };
    ($var:ident. _ _ _ _ _ _ _ _ _ _ _ _ _ _ _ _ _ _ _ _ _ _ _ _ _ _ _ _ _ _ _ _ _ _ _ _ _ _ _ _ _ _ _ _ _ _ _ _ _ _ _) => {
        $var.51
    };
    ($var:ident. _ _ _ _ _ _ _ _ _ _ _ _ _ _ _ _ _ _ _ _ _ _ _ _ _ _ _ _ _ _ _ _ _ _ _ _ _ _ _ _ _ _ _ _ _ _ _ _ _ _ _ _) => {
        $var.52
    };
    ($var:ident. _ _ _ _ _ _ _ _ _ _ _ _ _ _ _ _ _ _ _ _ _ _ _ _ _ _ _ _ _ _ _ _ _ _ _ _ _ _ _ _ _ _ _ _ _ _ _ _ _ _ _ _ _) => {
        $var.53
    };
    ($var:ident. _ _ _ _ _ _ _ _ _ _ _ _ _ _ _ _ _ _ _ _ _ _ _ _ _ _ _ _ _ _ _ _ _ _ _ _ _ _ _ _ _ _ _ _ _ _ _ _ _ _ _ _ _ _) => {
        $var.54
    };
    ($var:ident. _ _ _ _ _ _ _ _ _ _ _ _ _ _ _ _ _ _ _ _ _ _ _ _ _ _ _ _ _ _ _ _ _ _ _ _ _ _ _ _ _ _ _ _ _ _ _ _ _ _ _ _ _ _ _) => {
        $var.55
    };
    ($var:ident. _ _ _ _ _ _ _ _ _ _ _ _ _ _ _ _ _ _ _ _ _ _ _ _ _ _ _ _ _ _ _ _ _ _ _ _ _ _ _ _ _ _ _ _ _ _ _ _ _ _ _ _ _ _ _ _) => {
        $var.56
    };
    ($var:ident. _ _ _ _ _ _ _ _ _ _ _ _ _ _ _ _ _ _ _ _ _ _ _ _ _ _ _ _ _ _ _ _ _ _ _ _ _ _ _ _ _ _ _ _ _ _ _ _ _ _ _ _ _ _ _ _ _) => {
        $var.57
    };
    ($var:ident. _ _ _ _ _ _ _ _ _ _ _ _ _ _ _ _ _ _ _ _ _ _ _ _ _ _ _ _ _ _ _ _ _ _ _ _ _ _ _ _ _ _ _ _ _ _ _ _ _ _ _ _ _ _ _ _ _ _) => {
        $var.58
    };
    ($var:ident. _ _ _ _ _ _ _ _ _ _ _ _ _ _ _ _ _ _ _ _ _ _ _ _ _ _ _ _ _ _ _ _ _ _ _ _ _ _ _ _ _ _ _ _ _ _ _ _ _ _ _ _ _ _ _ _ _ _ _) => {
        $var.59
    };
    ($var:ident. _ _ _ _ _ _ _ _ _ _ _ _ _ _ _ _ _ _ _ _ _ _ _ _ _ _ _ _ _ _ _ _ _ _ _ _ _ _ _ _ _ _ _ _ _ _ _ _ _ _ _ _ _ _ _ _ _ _ _ _) => {
        $var.60
    };
    ($var:ident. _ _ _ _ _ _ _ _ _ _ _ _ _ _ _ _ _ _ _ _ _ _ _ _ _ _ _ _ _ _ _ _ _ _ _ _ _ _ _ _ _ _ _ _ _ _ _ _ _ _ _ _ _ _ _ _ _ _ _ _ _) => {
        $var.61
    };
    ($var:ident. _ _ _ _ _ _ _ _ _ _ _ _ _ _ _ _ _ _ _ _ _ _ _ _ _ _ _ _ _ _ _ _ _ _ _ _ _ _ _ _ _ _ _ _ _ _ _ _ _ _ _ _ _ _ _ _ _ _ _ _ _ _) => {
        $var.62
    };
    ($var:ident. _ _ _ _ _ _ _ _ _ _ _ _ _ _ _ _ _ _ _ _ _ _ _ _ _ _ _ _ _ _ _ _ _ _ _ _ _ _ _ _ _ _ _ _ _ _ _ _ _ _ _ _ _ _ _ _ _ _ _ _ _ _ _) => {
        $var.63
    };
    ($var:ident. _ _ _ _ _ _ _ _ _ _ _ _ _ _ _ _ _ _ _ _ _ _ _ _ _ _ _ _ _ _ _ _ _ _ _ _ _ _ _ _ _ _ _ _ _ _ _ _ _ _ _ _ _ _ _ _ _ _ _ _ _ _ _ _) => {
        $var.64
    };
}

#[macro_export]
#[doc(hidden)]
macro_rules! select_variant {
    ($($p:ident)::*, () $($t:tt)*) => {
        $($p)::*::_0 $($t)*
    };
    ($($p:ident)::*, (_) $($t:tt)*) => {
        $($p)::*::_1 $($t)*
    };
    ($($p:ident)::*, (_ _) $($t:tt)*) => {
        $($p)::*::_2 $($t)*
    };
    ($($p:ident)::*, (_ _ _) $($t:tt)*) => {
        $($p)::*::_3 $($t)*
    };
    ($($p:ident)::*, (_ _ _ _) $($t:tt)*) => {
        $($p)::*::_4 $($t)*
    };
    ($($p:ident)::*, (_ _ _ _ _) $($t:tt)*) => {
        $($p)::*::_5 $($t)*
    };
    ($($p:ident)::*, (_ _ _ _ _ _) $($t:tt)*) => {
        $($p)::*::_6 $($t)*
    };
    ($($p:ident)::*, (_ _ _ _ _ _ _) $($t:tt)*) => {
        $($p)::*::_7 $($t)*
    };
    ($($p:ident)::*, (_ _ _ _ _ _ _ _) $($t:tt)*) => {
        $($p)::*::_8 $($t)*
    };
    ($($p:ident)::*, (_ _ _ _ _ _ _ _ _) $($t:tt)*) => {
        $($p)::*::_9 $($t)*
    };
    ($($p:ident)::*, (_ _ _ _ _ _ _ _ _ _) $($t:tt)*) => {
        $($p)::*::_10 $($t)*
    };
    ($($p:ident)::*, (_ _ _ _ _ _ _ _ _ _ _) $($t:tt)*) => {
        $($p)::*::_11 $($t)*
    };
    ($($p:ident)::*, (_ _ _ _ _ _ _ _ _ _ _ _) $($t:tt)*) => {
        $($p)::*::_12 $($t)*
    };
    ($($p:ident)::*, (_ _ _ _ _ _ _ _ _ _ _ _ _) $($t:tt)*) => {
        $($p)::*::_13 $($t)*
    };
    ($($p:ident)::*, (_ _ _ _ _ _ _ _ _ _ _ _ _ _) $($t:tt)*) => {
        $($p)::*::_14 $($t)*
    };
    ($($p:ident)::*, (_ _ _ _ _ _ _ _ _ _ _ _ _ _ _) $($t:tt)*) => {
        $($p)::*::_15 $($t)*
    };
    ($($p:ident)::*, (_ _ _ _ _ _ _ _ _ _ _ _ _ _ _ _) $($t:tt)*) => {
        $($p)::*::_16 $($t)*
    };
    ($($p:ident)::*, (_ _ _ _ _ _ _ _ _ _ _ _ _ _ _ _ _) $($t:tt)*) => {
        $($p)::*::_17 $($t)*
    };
    ($($p:ident)::*, (_ _ _ _ _ _ _ _ _ _ _ _ _ _ _ _ _ _) $($t:tt)*) => {
        $($p)::*::_18 $($t)*
    };
    ($($p:ident)::*, (_ _ _ _ _ _ _ _ _ _ _ _ _ _ _ _ _ _ _) $($t:tt)*) => {
        $($p)::*::_19 $($t)*
    };
    ($($p:ident)::*, (_ _ _ _ _ _ _ _ _ _ _ _ _ _ _ _ _ _ _ _) $($t:tt)*) => {
        $($p)::*::_20 $($t)*
    };
    ($($p:ident)::*, (_ _ _ _ _ _ _ _ _ _ _ _ _ _ _ _ _ _ _ _ _) $($t:tt)*) => {
        $($p)::*::_21 $($t)*
    };
    ($($p:ident)::*, (_ _ _ _ _ _ _ _ _ _ _ _ _ _ _ _ _ _ _ _ _ _) $($t:tt)*) => {
        $($p)::*::_22 $($t)*
    };
    ($($p:ident)::*, (_ _ _ _ _ _ _ _ _ _ _ _ _ _ _ _ _ _ _ _ _ _ _) $($t:tt)*) => {
        $($p)::*::_23 $($t)*
    };
    ($($p:ident)::*, (_ _ _ _ _ _ _ _ _ _ _ _ _ _ _ _ _ _ _ _ _ _ _ _) $($t:tt)*) => {
        $($p)::*::_24 $($t)*
    };
    ($($p:ident)::*, (_ _ _ _ _ _ _ _ _ _ _ _ _ _ _ _ _ _ _ _ _ _ _ _ _) $($t:tt)*) => {
        $($p)::*::_25 $($t)*
    };
    ($($p:ident)::*, (_ _ _ _ _ _ _ _ _ _ _ _ _ _ _ _ _ _ _ _ _ _ _ _ _ _) $($t:tt)*) => {
        $($p)::*::_26 $($t)*
    };
    ($($p:ident)::*, (_ _ _ _ _ _ _ _ _ _ _ _ _ _ _ _ _ _ _ _ _ _ _ _ _ _ _) $($t:tt)*) => {
        $($p)::*::_27 $($t)*
    };
    ($($p:ident)::*, (_ _ _ _ _ _ _ _ _ _ _ _ _ _ _ _ _ _ _ _ _ _ _ _ _ _ _ _) $($t:tt)*) => {
        $($p)::*::_28 $($t)*
    };
    ($($p:ident)::*, (_ _ _ _ _ _ _ _ _ _ _ _ _ _ _ _ _ _ _ _ _ _ _ _ _ _ _ _ _) $($t:tt)*) => {
        $($p)::*::_29 $($t)*
    };
    ($($p:ident)::*, (_ _ _ _ _ _ _ _ _ _ _ _ _ _ _ _ _ _ _ _ _ _ _ _ _ _ _ _ _ _) $($t:tt)*) => {
        $($p)::*::_30 $($t)*
    };
    ($($p:ident)::*, (_ _ _ _ _ _ _ _ _ _ _ _ _ _ _ _ _ _ _ _ _ _ _ _ _ _ _ _ _ _ _) $($t:tt)*) => {
        $($p)::*::_31 $($t)*
    };
    ($($p:ident)::*, (_ _ _ _ _ _ _ _ _ _ _ _ _ _ _ _ _ _ _ _ _ _ _ _ _ _ _ _ _ _ _ _) $($t:tt)*) => {
        $($p)::*::_32 $($t)*
    };
    ($($p:ident)::*, (_ _ _ _ _ _ _ _ _ _ _ _ _ _ _ _ _ _ _ _ _ _ _ _ _ _ _ _ _ _ _ _ _) $($t:tt)*) => {
        $($p)::*::_33 $($t)*
    };
    ($($p:ident)::*, (_ _ _ _ _ _ _ _ _ _ _ _ _ _ _ _ _ _ _ _ _ _ _ _ _ _ _ _ _ _ _ _ _ _) $($t:tt)*) => {
        $($p)::*::_34 $($t)*
    };
    ($($p:ident)::*, (_ _ _ _ _ _ _ _ _ _ _ _ _ _ _ _ _ _ _ _ _ _ _ _ _ _ _ _ _ _ _ _ _ _ _) $($t:tt)*) => {
        $($p)::*::_35 $($t)*
    };
    ($($p:ident)::*, (_ _ _ _ _ _ _ _ _ _ _ _ _ _ _ _ _ _ _ _ _ _ _ _ _ _ _ _ _ _ _ _ _ _ _ _) $($t:tt)*) => {
        $($p)::*::_36 $($t)*
    };
    ($($p:ident)::*, (_ _ _ _ _ _ _ _ _ _ _ _ _ _ _ _ _ _ _ _ _ _ _ _ _ _ _ _ _ _ _ _ _ _ _ _ _) $($t:tt)*) => {
        $($p)::*::_37 $($t)*
    };
    ($($p:ident)::*, (_ _ _ _ _ _ _ _ _ _ _ _ _ _ _ _ _ _ _ _ _ _ _ _ _ _ _ _ _ _ _ _ _ _ _ _ _ _) $($t:tt)*) => {
        $($p)::*::_38 $($t)*
    };
    ($($p:ident)::*, (_ _ _ _ _ _ _ _ _ _ _ _ _ _ _ _ _ _ _ _ _ _ _ _ _ _ _ _ _ _ _ _ _ _ _ _ _ _ _) $($t:tt)*) => {
        $($p)::*::_39 $($t)*
    };
    ($($p:ident)::*, (_ _ _ _ _ _ _ _ _ _ _ _ _ _ _ _ _ _ _ _ _ _ _ _ _ _ _ _ _ _ _ _ _ _ _ _ _ _ _ _) $($t:tt)*) => {
        $($p)::*::_40 $($t)*
    };
    ($($p:ident)::*, (_ _ _ _ _ _ _ _ _ _ _ _ _ _ _ _ _ _ _ _ _ _ _ _ _ _ _ _ _ _ _ _ _ _ _ _ _ _ _ _ _) $($t:tt)*) => {
        $($p)::*::_41 $($t)*
    };
    ($($p:ident)::*, (_ _ _ _ _ _ _ _ _ _ _ _ _ _ _ _ _ _ _ _ _ _ _ _ _ _ _ _ _ _ _ _ _ _ _ _ _ _ _ _ _ _) $($t:tt)*) => {
        $($p)::*::_42 $($t)*
    };
    ($($p:ident)::*, (_ _ _ _ _ _ _ _ _ _ _ _ _ _ _ _ _ _ _ _ _ _ _ _ _ _ _ _ _ _ _ _ _ _ _ _ _ _ _ _ _ _ _) $($t:tt)*) => {
        $($p)::*::_43 $($t)*
    };
    ($($p:ident)::*, (_ _ _ _ _ _ _ _ _ _ _ _ _ _ _ _ _ _ _ _ _ _ _ _ _ _ _ _ _ _ _ _ _ _ _ _ _ _ _ _ _ _ _ _) $($t:tt)*) => {
        $($p)::*::_44 $($t)*
    };
    ($($p:ident)::*, (_ _ _ _ _ _ _ _ _ _ _ _ _ _ _ _ _ _ _ _ _ _ _ _ _ _ _ _ _ _ _ _ _ _ _ _ _ _ _ _ _ _ _ _ _) $($t:tt)*) => {
        $($p)::*::_45 $($t)*
    };
    ($($p:ident)::*, (_ _ _ _ _ _ _ _ _ _ _ _ _ _ _ _ _ _ _ _ _ _ _ _ _ _ _ _ _ _ _ _ _ _ _ _ _ _ _ _ _ _ _ _ _ _) $($t:tt)*) => {
        $($p)::*::_46 $($t)*
    };
    ($($p:ident)::*, (_ _ _ _ _ _ _ _ _ _ _ _ _ _ _ _ _ _ _ _ _ _ _ _ _ _ _ _ _ _ _ _ _ _ _ _ _ _ _ _ _ _ _ _ _ _ _) $($t:tt)*) => {
        $($p)::*::_47 $($t)*
    };
    ($($p:ident)::*, (_ _ _ _ _ _ _ _ _ _ _ _ _ _ _ _ _ _ _ _ _ _ _ _ _ _ _ _ _ _ _ _ _ _ _ _ _ _ _ _ _ _ _ _ _ _ _ _) $($t:tt)*) => {
        $($p)::*::_48 $($t)*
    };
    ($($p:ident)::*, (_ _ _ _ _ _ _ _ _ _ _ _ _ _ _ _ _ _ _ _ _ _ _ _ _ _ _ _ _ _ _ _ _ _ _ _ _ _ _ _ _ _ _ _ _ _ _ _ _) $($t:tt)*) => {
        $($p)::*::_49 $($t)*
    };
    ($($p:ident)::*, (_ _ _ _ _ _ _ _ _ _ _ _ _ _ _ _ _ _ _ _ _ _ _ _ _ _ _ _ _ _ _ _ _ _ _ _ _ _ _ _ _ _ _ _ _ _ _ _ _ _) $($t:tt)*) => {
        $($p)::*::_50 $($t)*
    };
    ($($p:ident)::*, (_ _ _ _ _ _ _ _ _ _ _ _ _ _ _ _ _ _ _ _ _ _ _ _ _ _ _ _ _ _ _ _ _ _ _ _ _ _ _ _ _ _ _ _ _ _ _ _ _ _ _) $($t:tt)*) => {
        $($p)::*::_51 $($t)*
    };
    ($($p:ident)::*, (_ _ _ _ _ _ _ _ _ _ _ _ _ _ _ _ _ _ _ _ _ _ _ _ _ _ _ _ _ _ _ _ _ _ _ _ _ _ _ _ _ _ _ _ _ _ _ _ _ _ _ _) $($t:tt)*) => {
        $($p)::*::_52 $($t)*
    };
    ($($p:ident)::*, (_ _ _ _ _ _ _ _ _ _ _ _ _ _ _ _ _ _ _ _ _ _ _ _ _ _ _ _ _ _ _ _ _ _ _ _ _ _ _ _ _ _ _ _ _ _ _ _ _ _ _ _ _) $($t:tt)*) => {
        $($p)::*::_53 $($t)*
    };
    ($($p:ident)::*, (_ _ _ _ _ _ _ _ _ _ _ _ _ _ _ _ _ _ _ _ _ _ _ _ _ _ _ _ _ _ _ _ _ _ _ _ _ _ _ _ _ _ _ _ _ _ _ _ _ _ _ _ _ _) $($t:tt)*) => {
        $($p)::*::_54 $($t)*
    };
    ($($p:ident)::*, (_ _ _ _ _ _ _ _ _ _ _ _ _ _ _ _ _ _ _ _ _ _ _ _ _ _ _ _ _ _ _ _ _ _ _ _ _ _ _ _ _ _ _ _ _ _ _ _ _ _ _ _ _ _ _) $($t:tt)*) => {
        $($p)::*::_55 $($t)*
    };
    ($($p:ident)::*, (_ _ _ _ _ _ _ _ _ _ _ _ _ _ _ _ _ _ _ _ _ _ _ _ _ _ _ _ _ _ _ _ _ _ _ _ _ _ _ _ _ _ _ _ _ _ _ _ _ _ _ _ _ _ _ _) $($t:tt)*) => {
        $($p)::*::_56 $($t)*
    };
    ($($p:ident)::*, (_ _ _ _ _ _ _ _ _ _ _ _ _ _ _ _ _ _ _ _ _ _ _ _ _ _ _ _ _ _ _ _ _ _ _ _ _ _ _ _ _ _ _ _ _ _ _ _ _ _ _ _ _ _ _ _ _) $($t:tt)*) => {
        $($p)::*::_57 $($t)*
    };
    ($($p:ident)::*, (_ _ _ _ _ _ _ _ _ _ _ _ _ _ _ _ _ _ _ _ _ _ _ _ _ _ _ _ _ _ _ _ _ _ _ _ _ _ _ _ _ _ _ _ _ _ _ _ _ _ _ _ _ _ _ _ _ _) $($t:tt)*) => {
        $($p)::*::_58 $($t)*
    };
    ($($p:ident)::*, (_ _ _ _ _ _ _ _ _ _ _ _ _ _ _ _ _ _ _ _ _ _ _ _ _ _ _ _ _ _ _ _ _ _ _ _ _ _ _ _ _ _ _ _ _ _ _ _ _ _ _ _ _ _ _ _ _ _ _) $($t:tt)*) => {
        $($p)::*::_59 $($t)*
    };
    ($($p:ident)::*, (_ _ _ _ _ _ _ _ _ _ _ _ _ _ _ _ _ _ _ _ _ _ _ _ _ _ _ _ _ _ _ _ _ _ _ _ _ _ _ _ _ _ _ _ _ _ _ _ _ _ _ _ _ _ _ _ _ _ _ _) $($t:tt)*) => {
        $($p)::*::_60 $($t)*
    };
    ($($p:ident)::*, (_ _ _ _ _ _ _ _ _ _ _ _ _ _ _ _ _ _ _ _ _ _ _ _ _ _ _ _ _ _ _ _ _ _ _ _ _ _ _ _ _ _ _ _ _ _ _ _ _ _ _ _ _ _ _ _ _ _ _ _ _) $($t:tt)*) => {
        $($p)::*::_61 $($t)*
    };
    ($($p:ident)::*, (_ _ _ _ _ _ _ _ _ _ _ _ _ _ _ _ _ _ _ _ _ _ _ _ _ _ _ _ _ _ _ _ _ _ _ _ _ _ _ _ _ _ _ _ _ _ _ _ _ _ _ _ _ _ _ _ _ _ _ _ _ _) $($t:tt)*) => {
        $($p)::*::_62 $($t)*
    };
    ($($p:ident)::*, (_ _ _ _ _ _ _ _ _ _ _ _ _ _ _ _ _ _ _ _ _ _ _ _ _ _ _ _ _ _ _ _ _ _ _ _ _ _ _ _ _ _ _ _ _ _ _ _ _ _ _ _ _ _ _ _ _ _ _ _ _ _ _) $($t:tt)*) => {
        $($p)::*::_63 $($t)*
    };
}
