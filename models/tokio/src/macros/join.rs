// Macro text taken verbatim from tokio 1.49.0 (MIT), doc wrapper removed.
#[macro_export]
macro_rules! join {
    (@ {
        // Type of rotator that controls which inner future to start with
        // when polling our output future.
        rotator_select=$rotator_select:ty;

        // One `_` for each branch in the `join!` macro. This is not used once
        // normalization is complete.
        ( $($count:tt)* )

        // The expression `0+1+1+ ... +1` equal to the number of branches.
        ( $($total:tt)* )

        // Normalized join! branches
        $( ( $($skip:tt)* ) $e:expr, )*

    }) => {{
        // Safety: nothing must be moved out of `futures`. This is to satisfy
        // the requirement of `Pin::new_unchecked` called below.
        //
        // We can't use the `pin!` macro for this because `futures` is a tuple
        // and the standard library provides no way to pin-project to the fields
        // of a tuple.
        let mut futures = ( $( $crate::macros::support::maybe_done($e), )* );

        // This assignment makes sure that the `poll_fn` closure only has a
        // reference to the futures, instead of taking ownership of them. This
        // mitigates the issue described in
        // <https://internals.rust-lang.org/t/surprising-soundness-trouble-around-pollfn/17484>
        let mut futures = &mut futures;

        // Each time the future created by poll_fn is polled, if not using biased mode,
        // a different future is polled first to ensure every future passed to join!
        // can make progress even if one of the futures consumes the whole budget.
        let mut rotator = <$rotator_select as $crate::macros::support::RotatorSelect>::Rotator::<{$($total)*}>::default();

        $crate::macros::support::poll_fn(move |cx| {
            const COUNT: u32 = $($total)*;

            let mut is_pending = false;
            let mut to_run = COUNT;

            // The number of futures that will be skipped in the first loop iteration.
            let mut skip = rotator.num_skip();

            // This loop runs twice and the first `skip` futures
            // are not polled in the first iteration.
            loop {
            $(
                if skip == 0 {
                    if to_run == 0 {
                        // Every future has been polled
                        break;
                    }
                    to_run -= 1;

                    // Extract the future for this branch from the tuple.
                    let ( $($skip,)* fut, .. ) = &mut *futures;

                    // Safety: future is stored on the stack above
                    // and never moved.
                    let mut fut = unsafe { $crate::macros::support::Pin::new_unchecked(fut) };

                    // Try polling
                    if $crate::macros::support::Future::poll(fut.as_mut(), cx).is_pending() {
                        is_pending = true;
                    }
                } else {
                    // Future skipped, one less future to skip in the next iteration
                    skip -= 1;
                }
            )*
            }

            if is_pending {
                $crate::macros::support::Poll::Pending
            } else {
                $crate::macros::support::Poll::Ready(($({
                    // Extract the future for this branch from the tuple.
                    let ( $($skip,)* fut, .. ) = &mut futures;

                    // Safety: future is stored on the stack above
                    // and never moved.
                    let mut fut = unsafe { $crate::macros::support::Pin::new_unchecked(fut) };

                    fut.take_output().expect("expected completed future")
                },)*))
            }
        }).await
    }};

    // ===== Normalize =====

    (@ { rotator_select=$rotator_select:ty; ( $($s:tt)* ) ( $($n:tt)* ) $($t:tt)* } $e:expr, $($r:tt)* ) => {
        $crate::join!(@{ rotator_select=$rotator_select; ($($s)* _) ($($n)* + 1) $($t)* ($($s)*) $e, } $($r)*)
    };

    // ===== Entry point =====
    ( biased; $($e:expr),+ $(,)?) => {
        $crate::join!(@{ rotator_select=$crate::macros::support::SelectBiased; () (0) } $($e,)*)
    };

    ( $($e:expr),+ $(,)?) => {
        $crate::join!(@{ rotator_select=$crate::macros::support::SelectNormal; () (0) } $($e,)*)
    };

    (biased;) => { async {}.await };

    () => { async {}.await }
}

/// Helper trait to select which type of `Rotator` to use.
// We need this to allow specifying a const generic without
// colliding with caller const names due to macro hygiene.
pub trait RotatorSelect {
    type Rotator<const COUNT: u32>: Default;
}

/// Marker type indicating that the starting branch should
/// rotate each poll.
#[derive(Debug)]
pub struct SelectNormal;
/// Marker type indicating that the starting branch should
/// be the first declared branch each poll.
#[derive(Debug)]
pub struct SelectBiased;

impl RotatorSelect for SelectNormal {
    type Rotator<const COUNT: u32> = Rotator<COUNT>;
}

impl RotatorSelect for SelectBiased {
    type Rotator<const COUNT: u32> = BiasedRotator;
}

/// Rotates by one each [`Self::num_skip`] call up to COUNT - 1.
#[derive(Default, Debug)]
pub struct Rotator<const COUNT: u32> {
    next: u32,
}

impl<const COUNT: u32> Rotator<COUNT> {
    /// Rotates by one each [`Self::num_skip`] call up to COUNT - 1
    #[inline]
    pub fn num_skip(&mut self) -> u32 {
        let num_skip = self.next;
        self.next += 1;
        if self.next == COUNT {
            self.next = 0;
        }
        num_skip
    }
}

/// [`Self::num_skip`] always returns 0.
#[derive(Default, Debug)]
pub struct BiasedRotator {}

impl BiasedRotator {
    /// Always returns 0.
    #[inline]
    pub fn num_skip(&mut self) -> u32 {
        0
    }
}
