//! select!/join!/try_join! keep tokio 1.49's own macro text (see the files);
//! only the support module differs: the random start branch of an unbiased
//! `select!` is a nondeterministic value under Kani.

#[macro_use]
mod select;
#[macro_use]
mod join;
#[macro_use]
mod try_join;

#[doc(hidden)]
pub mod support {
    pub use super::join::{BiasedRotator, Rotator, RotatorSelect, SelectBiased, SelectNormal};
    pub use super::maybe_done::maybe_done;
    pub use std::future::poll_fn;
    pub use std::future::{Future, IntoFuture};
    pub use std::pin::Pin;
    pub use std::task::{Context, Poll};

    #[doc(hidden)]
    pub fn thread_rng_n(n: u32) -> u32 {
        crate::model::choose(n)
    }

    #[doc(hidden)]
    #[inline]
    pub fn poll_budget_available(_: &mut Context<'_>) -> Poll<()> {
        Poll::Ready(())
    }
}

mod maybe_done {
    use std::future::{Future, IntoFuture};
    use std::pin::Pin;
    use std::task::{Context, Poll};

    /// A future that may have completed (tokio::future::maybe_done, without pin-project).
    pub enum MaybeDone<Fut: Future> {
        Future(Fut),
        Done(Fut::Output),
        Gone,
    }

    pub fn maybe_done<F: IntoFuture>(future: F) -> MaybeDone<F::IntoFuture> {
        MaybeDone::Future(future.into_future())
    }

    impl<Fut: Future> MaybeDone<Fut> {
        pub fn output_mut(self: Pin<&mut Self>) -> Option<&mut Fut::Output> {
            // Safety: the Done payload is not structurally pinned.
            match unsafe { self.get_unchecked_mut() } {
                MaybeDone::Done(out) => Some(out),
                _ => None,
            }
        }
        pub fn take_output(self: Pin<&mut Self>) -> Option<Fut::Output> {
            // Safety: the Done payload is not structurally pinned.
            let this = unsafe { self.get_unchecked_mut() };
            match this {
                MaybeDone::Done(_) => {}
                _ => return None,
            }
            match std::mem::replace(this, MaybeDone::Gone) {
                MaybeDone::Done(out) => Some(out),
                _ => unreachable!(),
            }
        }
    }

    impl<Fut: Future> Future for MaybeDone<Fut> {
        type Output = ();
        fn poll(self: Pin<&mut Self>, cx: &mut Context<'_>) -> Poll<()> {
            // Safety: the inner future is never moved while in the Future variant.
            let this = unsafe { self.get_unchecked_mut() };
            match this {
                MaybeDone::Future(f) => {
                    let out = match unsafe { Pin::new_unchecked(f) }.poll(cx) {
                        Poll::Ready(out) => out,
                        Poll::Pending => return Poll::Pending,
                    };
                    // drop the completed future in place, then store the output
                    *this = MaybeDone::Done(out);
                    Poll::Ready(())
                }
                MaybeDone::Done(_) => Poll::Ready(()),
                MaybeDone::Gone => panic!("MaybeDone polled after value taken"),
            }
        }
    }
}
