//! `tokio::sync` model.
pub mod mpsc;
pub mod oneshot;
pub mod watch;
mod locks;
mod once_cell;
mod semaphore;

pub use locks::*;
pub use once_cell::OnceCell;
pub use semaphore::{AcquireError, OwnedSemaphorePermit, Semaphore, SemaphorePermit, TryAcquireError};
