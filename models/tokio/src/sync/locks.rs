//! `tokio::sync::{Mutex, RwLock}` and their guards, single-threaded model:
//! acquisition succeeds when the lock is free, otherwise the future is Pending.

use std::cell::{Cell, UnsafeCell};
use std::marker::PhantomData;
use std::ops::{Deref, DerefMut};
use std::sync::Arc;
use std::task::Poll;

#[derive(Debug)]
pub struct TryLockError(());
impl std::fmt::Display for TryLockError {
    fn fmt(&self, f: &mut std::fmt::Formatter<'_>) -> std::fmt::Result {
        write!(f, "operation would block")
    }
}
impl std::error::Error for TryLockError {}

// ------------------------------------------------------------------ Mutex

pub struct Mutex<T: ?Sized> {
    locked: Cell<bool>,
    val: UnsafeCell<T>,
}
unsafe impl<T: ?Sized + Send> Send for Mutex<T> {}
unsafe impl<T: ?Sized + Send> Sync for Mutex<T> {}

impl<T: ?Sized> std::fmt::Debug for Mutex<T> {
    fn fmt(&self, f: &mut std::fmt::Formatter<'_>) -> std::fmt::Result {
        f.debug_struct("Mutex").finish()
    }
}

impl<T> Mutex<T> {
    pub fn new(t: T) -> Self {
        Mutex { locked: Cell::new(false), val: UnsafeCell::new(t) }
    }
    pub const fn const_new(t: T) -> Self {
        Mutex { locked: Cell::new(false), val: UnsafeCell::new(t) }
    }
    pub fn into_inner(self) -> T {
        self.val.into_inner()
    }
}

impl<T: ?Sized> Mutex<T> {
    fn poll_lock(&self) -> Poll<()> {
        if self.locked.get() {
            Poll::Pending
        } else {
            self.locked.set(true);
            Poll::Ready(())
        }
    }
    pub async fn lock(&self) -> MutexGuard<'_, T> {
        std::future::poll_fn(|_| self.poll_lock()).await;
        MutexGuard { m: self }
    }
    pub fn try_lock(&self) -> Result<MutexGuard<'_, T>, TryLockError> {
        match self.poll_lock() {
            Poll::Ready(()) => Ok(MutexGuard { m: self }),
            Poll::Pending => Err(TryLockError(())),
        }
    }
    pub async fn lock_owned(self: Arc<Self>) -> OwnedMutexGuard<T> {
        std::future::poll_fn(|_| self.poll_lock()).await;
        OwnedMutexGuard { m: self }
    }
    pub fn try_lock_owned(self: Arc<Self>) -> Result<OwnedMutexGuard<T>, TryLockError> {
        match self.poll_lock() {
            Poll::Ready(()) => Ok(OwnedMutexGuard { m: self }),
            Poll::Pending => Err(TryLockError(())),
        }
    }
    pub fn get_mut(&mut self) -> &mut T {
        self.val.get_mut()
    }
    pub fn blocking_lock(&self) -> MutexGuard<'_, T> {
        self.try_lock().expect("model: blocking_lock on a held mutex")
    }
}

impl<T: Default> Default for Mutex<T> {
    fn default() -> Self {
        Self::new(T::default())
    }
}

pub struct MutexGuard<'a, T: ?Sized> {
    m: &'a Mutex<T>,
}
unsafe impl<T: ?Sized + Send> Send for MutexGuard<'_, T> {}
unsafe impl<T: ?Sized + Send + Sync> Sync for MutexGuard<'_, T> {}
impl<T: ?Sized> Deref for MutexGuard<'_, T> {
    type Target = T;
    fn deref(&self) -> &T {
        unsafe { &*self.m.val.get() }
    }
}
impl<T: ?Sized> DerefMut for MutexGuard<'_, T> {
    fn deref_mut(&mut self) -> &mut T {
        unsafe { &mut *self.m.val.get() }
    }
}
impl<T: ?Sized> Drop for MutexGuard<'_, T> {
    fn drop(&mut self) {
        self.m.locked.set(false);
    }
}
impl<T: ?Sized + std::fmt::Debug> std::fmt::Debug for MutexGuard<'_, T> {
    fn fmt(&self, f: &mut std::fmt::Formatter<'_>) -> std::fmt::Result {
        (**self).fmt(f)
    }
}

pub struct OwnedMutexGuard<T: ?Sized> {
    m: Arc<Mutex<T>>,
}
unsafe impl<T: ?Sized + Send> Send for OwnedMutexGuard<T> {}
unsafe impl<T: ?Sized + Send + Sync> Sync for OwnedMutexGuard<T> {}
impl<T: ?Sized> Deref for OwnedMutexGuard<T> {
    type Target = T;
    fn deref(&self) -> &T {
        unsafe { &*self.m.val.get() }
    }
}
impl<T: ?Sized> DerefMut for OwnedMutexGuard<T> {
    fn deref_mut(&mut self) -> &mut T {
        unsafe { &mut *self.m.val.get() }
    }
}
impl<T: ?Sized> Drop for OwnedMutexGuard<T> {
    fn drop(&mut self) {
        self.m.locked.set(false);
    }
}
impl<T: ?Sized + std::fmt::Debug> std::fmt::Debug for OwnedMutexGuard<T> {
    fn fmt(&self, f: &mut std::fmt::Formatter<'_>) -> std::fmt::Result {
        (**self).fmt(f)
    }
}

// ----------------------------------------------------------------- RwLock

pub struct RwLock<T: ?Sized> {
    readers: Cell<usize>,
    writer: Cell<bool>,
    val: UnsafeCell<T>,
}
unsafe impl<T: ?Sized + Send> Send for RwLock<T> {}
unsafe impl<T: ?Sized + Send + Sync> Sync for RwLock<T> {}

impl<T: ?Sized> std::fmt::Debug for RwLock<T> {
    fn fmt(&self, f: &mut std::fmt::Formatter<'_>) -> std::fmt::Result {
        f.debug_struct("RwLock").finish()
    }
}

/// Lock bookkeeping shared by all guard kinds.
struct Release {
    readers: *const Cell<usize>,
    writer: *const Cell<bool>,
    write: bool,
}
impl Release {
    fn release(&self) {
        unsafe {
            if self.write {
                (*self.writer).set(false);
            } else {
                let r = &*self.readers;
                r.set(r.get() - 1);
            }
        }
    }
}

impl<T> RwLock<T> {
    pub fn new(t: T) -> Self {
        RwLock { readers: Cell::new(0), writer: Cell::new(false), val: UnsafeCell::new(t) }
    }
    pub const fn const_new(t: T) -> Self {
        RwLock { readers: Cell::new(0), writer: Cell::new(false), val: UnsafeCell::new(t) }
    }
    pub fn into_inner(self) -> T {
        self.val.into_inner()
    }
}

impl<T: Default> Default for RwLock<T> {
    fn default() -> Self {
        Self::new(T::default())
    }
}

impl<T: ?Sized> RwLock<T> {
    fn poll_read(&self) -> Poll<()> {
        if self.writer.get() {
            Poll::Pending
        } else {
            self.readers.set(self.readers.get() + 1);
            Poll::Ready(())
        }
    }
    fn poll_write(&self) -> Poll<()> {
        if self.writer.get() || self.readers.get() > 0 {
            Poll::Pending
        } else {
            self.writer.set(true);
            Poll::Ready(())
        }
    }
    fn rel(&self, write: bool) -> Release {
        Release { readers: &self.readers, writer: &self.writer, write }
    }

    pub async fn read(&self) -> RwLockReadGuard<'_, T> {
        std::future::poll_fn(|_| self.poll_read()).await;
        RwLockReadGuard { rel: self.rel(false), data: self.val.get(), _p: PhantomData }
    }
    pub fn try_read(&self) -> Result<RwLockReadGuard<'_, T>, TryLockError> {
        match self.poll_read() {
            Poll::Ready(()) => Ok(RwLockReadGuard { rel: self.rel(false), data: self.val.get(), _p: PhantomData }),
            Poll::Pending => Err(TryLockError(())),
        }
    }
    pub async fn write(&self) -> RwLockWriteGuard<'_, T> {
        std::future::poll_fn(|_| self.poll_write()).await;
        RwLockWriteGuard { rel: self.rel(true), data: self.val.get(), _p: PhantomData }
    }
    pub fn try_write(&self) -> Result<RwLockWriteGuard<'_, T>, TryLockError> {
        match self.poll_write() {
            Poll::Ready(()) => Ok(RwLockWriteGuard { rel: self.rel(true), data: self.val.get(), _p: PhantomData }),
            Poll::Pending => Err(TryLockError(())),
        }
    }
    pub async fn read_owned(self: Arc<Self>) -> OwnedRwLockReadGuard<T> {
        std::future::poll_fn(|_| self.poll_read()).await;
        let (rel, data) = (self.rel(false), self.val.get() as *const T);
        OwnedRwLockReadGuard { rel, data, lock: self }
    }
    pub fn try_read_owned(self: Arc<Self>) -> Result<OwnedRwLockReadGuard<T>, TryLockError> {
        match self.poll_read() {
            Poll::Ready(()) => {
                let (rel, data) = (self.rel(false), self.val.get() as *const T);
                Ok(OwnedRwLockReadGuard { rel, data, lock: self })
            }
            Poll::Pending => Err(TryLockError(())),
        }
    }
    pub async fn write_owned(self: Arc<Self>) -> OwnedRwLockWriteGuard<T> {
        std::future::poll_fn(|_| self.poll_write()).await;
        let (rel, data) = (self.rel(true), self.val.get());
        OwnedRwLockWriteGuard { rel, data, lock: self }
    }
    pub fn try_write_owned(self: Arc<Self>) -> Result<OwnedRwLockWriteGuard<T>, TryLockError> {
        match self.poll_write() {
            Poll::Ready(()) => {
                let (rel, data) = (self.rel(true), self.val.get());
                Ok(OwnedRwLockWriteGuard { rel, data, lock: self })
            }
            Poll::Pending => Err(TryLockError(())),
        }
    }
    pub fn get_mut(&mut self) -> &mut T {
        self.val.get_mut()
    }
}

macro_rules! guard_common {
    ($name:ident < $($lt:lifetime,)? $($g:ident),+ > , $target:ident, $ptr:ident) => {
        unsafe impl<$($lt,)? $($g: ?Sized + Send + Sync),+> Send for $name<$($lt,)? $($g),+> {}
        unsafe impl<$($lt,)? $($g: ?Sized + Send + Sync),+> Sync for $name<$($lt,)? $($g),+> {}
        impl<$($lt,)? $($g: ?Sized),+> Deref for $name<$($lt,)? $($g),+> {
            type Target = $target;
            fn deref(&self) -> &$target {
                unsafe { &*self.$ptr }
            }
        }
        impl<$($lt,)? $($g: ?Sized),+> Drop for $name<$($lt,)? $($g),+> {
            fn drop(&mut self) {
                self.rel.release();
            }
        }
        impl<$($lt,)? $($g: ?Sized),+> std::fmt::Debug for $name<$($lt,)? $($g),+> {
            fn fmt(&self, f: &mut std::fmt::Formatter<'_>) -> std::fmt::Result {
                f.debug_struct(stringify!($name)).finish()
            }
        }
    };
}

pub struct RwLockReadGuard<'a, T: ?Sized> {
    rel: Release,
    data: *const T,
    _p: PhantomData<&'a T>,
}
guard_common!(RwLockReadGuard<'a, T>, T, data);

impl<'a, T: ?Sized> RwLockReadGuard<'a, T> {
    pub fn map<F, U: ?Sized>(this: Self, f: F) -> RwLockReadGuard<'a, U>
    where
        F: FnOnce(&T) -> &U,
    {
        let data = f(unsafe { &*this.data }) as *const U;
        let rel = Release { readers: this.rel.readers, writer: this.rel.writer, write: false };
        std::mem::forget(this);
        RwLockReadGuard { rel, data, _p: PhantomData }
    }
    pub fn try_map<F, U: ?Sized>(this: Self, f: F) -> Result<RwLockReadGuard<'a, U>, Self>
    where
        F: FnOnce(&T) -> Option<&U>,
    {
        let data = match f(unsafe { &*this.data }) {
            Some(d) => d as *const U,
            None => return Err(this),
        };
        let rel = Release { readers: this.rel.readers, writer: this.rel.writer, write: false };
        std::mem::forget(this);
        Ok(RwLockReadGuard { rel, data, _p: PhantomData })
    }
}

pub struct RwLockWriteGuard<'a, T: ?Sized> {
    rel: Release,
    data: *mut T,
    _p: PhantomData<&'a mut T>,
}
guard_common!(RwLockWriteGuard<'a, T>, T, data);
impl<'a, T: ?Sized> DerefMut for RwLockWriteGuard<'a, T> {
    fn deref_mut(&mut self) -> &mut T {
        unsafe { &mut *self.data }
    }
}

impl<'a, T: ?Sized> RwLockWriteGuard<'a, T> {
    pub fn downgrade(self) -> RwLockReadGuard<'a, T> {
        unsafe {
            (*self.rel.writer).set(false);
            let r = &*self.rel.readers;
            r.set(r.get() + 1);
        }
        let rel = Release { readers: self.rel.readers, writer: self.rel.writer, write: false };
        let data = self.data as *const T;
        std::mem::forget(self);
        RwLockReadGuard { rel, data, _p: PhantomData }
    }
    pub fn map<F, U: ?Sized>(mut this: Self, f: F) -> RwLockMappedWriteGuard<'a, U>
    where
        F: FnOnce(&mut T) -> &mut U,
    {
        let data = f(unsafe { &mut *this.data }) as *mut U;
        let rel = Release { readers: this.rel.readers, writer: this.rel.writer, write: true };
        std::mem::forget(this);
        RwLockMappedWriteGuard { rel, data, _p: PhantomData }
    }
}

pub struct RwLockMappedWriteGuard<'a, T: ?Sized> {
    rel: Release,
    data: *mut T,
    _p: PhantomData<&'a mut T>,
}
guard_common!(RwLockMappedWriteGuard<'a, T>, T, data);
impl<'a, T: ?Sized> DerefMut for RwLockMappedWriteGuard<'a, T> {
    fn deref_mut(&mut self) -> &mut T {
        unsafe { &mut *self.data }
    }
}

pub struct OwnedRwLockReadGuard<T: ?Sized, U: ?Sized = T> {
    rel: Release,
    data: *const U,
    lock: Arc<RwLock<T>>,
}
guard_common!(OwnedRwLockReadGuard<T, U>, U, data);

impl<T: ?Sized, U: ?Sized> OwnedRwLockReadGuard<T, U> {
    pub fn map<F, V: ?Sized>(this: Self, f: F) -> OwnedRwLockReadGuard<T, V>
    where
        F: FnOnce(&U) -> &V,
    {
        let data = f(unsafe { &*this.data }) as *const V;
        let rel = Release { readers: this.rel.readers, writer: this.rel.writer, write: false };
        let lock = unsafe { std::ptr::read(&this.lock) };
        std::mem::forget(this);
        OwnedRwLockReadGuard { rel, data, lock }
    }
}

pub struct OwnedRwLockWriteGuard<T: ?Sized> {
    rel: Release,
    data: *mut T,
    lock: Arc<RwLock<T>>,
}
guard_common!(OwnedRwLockWriteGuard<T>, T, data);
impl<T: ?Sized> DerefMut for OwnedRwLockWriteGuard<T> {
    fn deref_mut(&mut self) -> &mut T {
        unsafe { &mut *self.data }
    }
}

impl<T: ?Sized> OwnedRwLockWriteGuard<T> {
    pub fn map<F, U: ?Sized>(mut this: Self, f: F) -> OwnedRwLockMappedWriteGuard<T, U>
    where
        F: FnOnce(&mut T) -> &mut U,
    {
        let data = f(unsafe { &mut *this.data }) as *mut U;
        let rel = Release { readers: this.rel.readers, writer: this.rel.writer, write: true };
        let lock = unsafe { std::ptr::read(&this.lock) };
        std::mem::forget(this);
        OwnedRwLockMappedWriteGuard { rel, data, lock }
    }
    pub fn downgrade(self) -> OwnedRwLockReadGuard<T> {
        unsafe {
            (*self.rel.writer).set(false);
            let r = &*self.rel.readers;
            r.set(r.get() + 1);
        }
        let rel = Release { readers: self.rel.readers, writer: self.rel.writer, write: false };
        let data = self.data as *const T;
        let lock = unsafe { std::ptr::read(&self.lock) };
        std::mem::forget(self);
        OwnedRwLockReadGuard { rel, data, lock }
    }
}

pub struct OwnedRwLockMappedWriteGuard<T: ?Sized, U: ?Sized = T> {
    rel: Release,
    data: *mut U,
    lock: Arc<RwLock<T>>,
}
guard_common!(OwnedRwLockMappedWriteGuard<T, U>, U, data);
impl<T: ?Sized, U: ?Sized> DerefMut for OwnedRwLockMappedWriteGuard<T, U> {
    fn deref_mut(&mut self) -> &mut U {
        unsafe { &mut *self.data }
    }
}
