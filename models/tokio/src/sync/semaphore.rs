//! `tokio::sync::Semaphore` model (permit counter).

use crate::cell::Shared;
use std::sync::Arc;
use std::task::Poll;

struct Inner {
    permits: usize,
    closed: bool,
}

pub struct Semaphore {
    st: Shared<Inner>,
}

impl std::fmt::Debug for Semaphore {
    fn fmt(&self, f: &mut std::fmt::Formatter<'_>) -> std::fmt::Result {
        f.debug_struct("Semaphore").finish()
    }
}

#[derive(Debug)]
pub struct AcquireError(());
impl std::fmt::Display for AcquireError {
    fn fmt(&self, f: &mut std::fmt::Formatter<'_>) -> std::fmt::Result {
        write!(f, "semaphore closed")
    }
}
impl std::error::Error for AcquireError {}

#[derive(Debug, PartialEq, Eq)]
pub enum TryAcquireError {
    Closed,
    NoPermits,
}
impl std::fmt::Display for TryAcquireError {
    fn fmt(&self, f: &mut std::fmt::Formatter<'_>) -> std::fmt::Result {
        write!(f, "{self:?}")
    }
}
impl std::error::Error for TryAcquireError {}

pub struct SemaphorePermit<'a> {
    sem: &'a Semaphore,
    n: usize,
}
impl<'a> SemaphorePermit<'a> {
    pub fn forget(mut self) {
        self.n = 0;
    }
}
impl<'a> Drop for SemaphorePermit<'a> {
    fn drop(&mut self) {
        let n = self.n;
        self.sem.st.with(|s| s.permits += n);
    }
}
impl<'a> std::fmt::Debug for SemaphorePermit<'a> {
    fn fmt(&self, f: &mut std::fmt::Formatter<'_>) -> std::fmt::Result {
        f.debug_struct("SemaphorePermit").finish()
    }
}

pub struct OwnedSemaphorePermit {
    sem: Arc<Semaphore>,
    n: usize,
}
impl OwnedSemaphorePermit {
    pub fn forget(mut self) {
        self.n = 0;
    }
}
impl Drop for OwnedSemaphorePermit {
    fn drop(&mut self) {
        let n = self.n;
        self.sem.st.with(|s| s.permits += n);
    }
}
impl std::fmt::Debug for OwnedSemaphorePermit {
    fn fmt(&self, f: &mut std::fmt::Formatter<'_>) -> std::fmt::Result {
        f.debug_struct("OwnedSemaphorePermit").finish()
    }
}

impl Semaphore {
    pub const MAX_PERMITS: usize = usize::MAX >> 3;

    pub fn new(permits: usize) -> Self {
        Semaphore { st: Shared::new(Inner { permits, closed: false }) }
    }

    pub fn available_permits(&self) -> usize {
        self.st.with(|s| s.permits)
    }

    pub fn add_permits(&self, n: usize) {
        self.st.with(|s| s.permits += n);
    }

    pub fn close(&self) {
        self.st.with(|s| s.closed = true);
    }

    pub fn is_closed(&self) -> bool {
        self.st.with(|s| s.closed)
    }

    fn poll_acquire(&self) -> Poll<Result<(), AcquireError>> {
        self.st.with(|s| {
            if s.closed {
                Poll::Ready(Err(AcquireError(())))
            } else if s.permits > 0 {
                s.permits -= 1;
                Poll::Ready(Ok(()))
            } else {
                Poll::Pending
            }
        })
    }

    fn try_acquire_int(&self) -> Result<(), TryAcquireError> {
        self.st.with(|s| {
            if s.closed {
                Err(TryAcquireError::Closed)
            } else if s.permits > 0 {
                s.permits -= 1;
                Ok(())
            } else {
                Err(TryAcquireError::NoPermits)
            }
        })
    }

    pub async fn acquire(&self) -> Result<SemaphorePermit<'_>, AcquireError> {
        std::future::poll_fn(|_| self.poll_acquire()).await?;
        Ok(SemaphorePermit { sem: self, n: 1 })
    }

    pub fn try_acquire(&self) -> Result<SemaphorePermit<'_>, TryAcquireError> {
        self.try_acquire_int()?;
        Ok(SemaphorePermit { sem: self, n: 1 })
    }

    pub async fn acquire_owned(self: Arc<Self>) -> Result<OwnedSemaphorePermit, AcquireError> {
        std::future::poll_fn(|_| self.poll_acquire()).await?;
        Ok(OwnedSemaphorePermit { sem: self, n: 1 })
    }

    pub fn try_acquire_owned(self: Arc<Self>) -> Result<OwnedSemaphorePermit, TryAcquireError> {
        self.try_acquire_int()?;
        Ok(OwnedSemaphorePermit { sem: self, n: 1 })
    }
}
