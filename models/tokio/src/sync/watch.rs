//! `tokio::sync::watch` model: one value cell with a version counter.
//!
//! Contract (tokio docs): receivers see only the latest value; `changed`
//! resolves `Ok` when a version newer than the last seen one exists (marking
//! it seen), otherwise `Err` once all senders are gone; `send` fails iff there
//! are no receivers; `closed` resolves when all receivers are gone.

use crate::cell::Shared;
use std::ops::Deref;
use std::task::Poll;

struct Inner<T> {
    val: T,
    version: u64,
    senders: usize,
    receivers: usize,
}

pub struct Sender<T> {
    ch: Shared<Inner<T>>,
}
pub struct Receiver<T> {
    ch: Shared<Inner<T>>,
    seen: u64,
}
unsafe impl<T: Send + Sync> Send for Sender<T> {}
unsafe impl<T: Send + Sync> Sync for Sender<T> {}
unsafe impl<T: Send + Sync> Send for Receiver<T> {}
unsafe impl<T: Send + Sync> Sync for Receiver<T> {}

impl<T> std::fmt::Debug for Sender<T> {
    fn fmt(&self, f: &mut std::fmt::Formatter<'_>) -> std::fmt::Result {
        f.debug_struct("watch::Sender").finish()
    }
}
impl<T> std::fmt::Debug for Receiver<T> {
    fn fmt(&self, f: &mut std::fmt::Formatter<'_>) -> std::fmt::Result {
        f.debug_struct("watch::Receiver").finish()
    }
}

pub struct Ref<'a, T> {
    val: &'a T,
    has_changed: bool,
}
impl<'a, T> Ref<'a, T> {
    pub fn has_changed(&self) -> bool {
        self.has_changed
    }
}
impl<'a, T> Deref for Ref<'a, T> {
    type Target = T;
    fn deref(&self) -> &T {
        self.val
    }
}
impl<'a, T: std::fmt::Debug> std::fmt::Debug for Ref<'a, T> {
    fn fmt(&self, f: &mut std::fmt::Formatter<'_>) -> std::fmt::Result {
        self.val.fmt(f)
    }
}

pub fn channel<T>(init: T) -> (Sender<T>, Receiver<T>) {
    let ch = Shared::new(Inner { val: init, version: 0, senders: 1, receivers: 1 });
    (Sender { ch: ch.clone() }, Receiver { ch, seen: 0 })
}

impl<T> Sender<T> {
    pub fn new(init: T) -> Self {
        let ch = Shared::new(Inner { val: init, version: 0, senders: 1, receivers: 0 });
        Sender { ch }
    }

    pub fn send(&self, value: T) -> Result<(), error::SendError<T>> {
        if self.ch.with(|c| c.receivers) == 0 {
            return Err(error::SendError(value));
        }
        self.send_replace(value);
        Ok(())
    }

    pub fn send_replace(&self, value: T) -> T {
        self.ch.with(|c| {
            c.version += 1;
            std::mem::replace(&mut c.val, value)
        })
    }

    pub fn send_modify<F: FnOnce(&mut T)>(&self, modify: F) {
        self.ch.with(|c| {
            modify(&mut c.val);
            c.version += 1;
        })
    }

    pub fn send_if_modified<F: FnOnce(&mut T) -> bool>(&self, modify: F) -> bool {
        self.ch.with(|c| {
            if modify(&mut c.val) {
                c.version += 1;
                true
            } else {
                false
            }
        })
    }

    pub fn borrow(&self) -> Ref<'_, T> {
        // Safety: single-threaded model; the reference lives as long as &self.
        let val = unsafe { &(*self.ch.ptr()).val };
        Ref { val, has_changed: false }
    }

    pub fn is_closed(&self) -> bool {
        self.ch.with(|c| c.receivers == 0)
    }

    pub async fn closed(&self) {
        std::future::poll_fn(|_| if self.is_closed() { Poll::Ready(()) } else { Poll::Pending }).await
    }

    pub fn subscribe(&self) -> Receiver<T> {
        let seen = self.ch.with(|c| {
            c.receivers += 1;
            c.version
        });
        Receiver { ch: self.ch.clone(), seen }
    }

    pub fn receiver_count(&self) -> usize {
        self.ch.with(|c| c.receivers)
    }

    pub fn sender_count(&self) -> usize {
        self.ch.with(|c| c.senders)
    }

    pub fn same_channel(&self, other: &Self) -> bool {
        self.ch.same(&other.ch)
    }
}

impl<T> Clone for Sender<T> {
    fn clone(&self) -> Self {
        self.ch.with(|c| c.senders += 1);
        Sender { ch: self.ch.clone() }
    }
}

impl<T> Drop for Sender<T> {
    fn drop(&mut self) {
        self.ch.with(|c| c.senders -= 1);
    }
}

impl<T> Receiver<T> {
    pub fn borrow(&self) -> Ref<'_, T> {
        let (val, version) = unsafe { (&(*self.ch.ptr()).val, (*self.ch.ptr()).version) };
        Ref { val, has_changed: version != self.seen }
    }

    pub fn borrow_and_update(&mut self) -> Ref<'_, T> {
        let (val, version) = unsafe { (&(*self.ch.ptr()).val, (*self.ch.ptr()).version) };
        let has_changed = version != self.seen;
        self.seen = version;
        Ref { val, has_changed }
    }

    pub fn has_changed(&self) -> Result<bool, error::RecvError> {
        self.ch.with(|c| if c.senders == 0 { Err(error::RecvError(())) } else { Ok(c.version != self.seen) })
    }

    pub fn mark_changed(&mut self) {
        self.seen = self.ch.with(|c| c.version).wrapping_sub(1);
    }

    pub fn mark_unchanged(&mut self) {
        self.seen = self.ch.with(|c| c.version);
    }

    pub async fn changed(&mut self) -> Result<(), error::RecvError> {
        std::future::poll_fn(|_| {
            let (version, senders) = self.ch.with(|c| (c.version, c.senders));
            if version != self.seen {
                self.seen = version;
                Poll::Ready(Ok(()))
            } else if senders == 0 {
                Poll::Ready(Err(error::RecvError(())))
            } else {
                Poll::Pending
            }
        })
        .await
    }

    pub async fn wait_for(&mut self, mut f: impl FnMut(&T) -> bool) -> Result<Ref<'_, T>, error::RecvError> {
        let mut first = true;
        let res = std::future::poll_fn(|_| {
            let (version, senders) = self.ch.with(|c| (c.version, c.senders));
            if first || version != self.seen {
                first = false;
                self.seen = version;
                let ok = f(unsafe { &(*self.ch.ptr()).val });
                if ok {
                    return Poll::Ready(Ok(()));
                }
            }
            if senders == 0 { Poll::Ready(Err(error::RecvError(()))) } else { Poll::Pending }
        })
        .await;
        res?;
        let val = unsafe { &(*self.ch.ptr()).val };
        Ok(Ref { val, has_changed: false })
    }

    pub fn same_channel(&self, other: &Self) -> bool {
        self.ch.same(&other.ch)
    }
}

impl<T> Clone for Receiver<T> {
    fn clone(&self) -> Self {
        self.ch.with(|c| c.receivers += 1);
        Receiver { ch: self.ch.clone(), seen: self.seen }
    }
}

impl<T> Drop for Receiver<T> {
    fn drop(&mut self) {
        self.ch.with(|c| c.receivers -= 1);
    }
}

pub mod error {
    use std::fmt;

    #[derive(PartialEq, Eq, Clone, Copy)]
    pub struct SendError<T>(pub T);
    impl<T> fmt::Debug for SendError<T> {
        fn fmt(&self, f: &mut fmt::Formatter<'_>) -> fmt::Result {
            f.debug_struct("SendError").finish_non_exhaustive()
        }
    }
    impl<T> fmt::Display for SendError<T> {
        fn fmt(&self, f: &mut fmt::Formatter<'_>) -> fmt::Result {
            write!(f, "channel closed")
        }
    }
    impl<T> std::error::Error for SendError<T> {}

    #[derive(Debug, Clone)]
    pub struct RecvError(pub(crate) ());
    impl fmt::Display for RecvError {
        fn fmt(&self, f: &mut fmt::Formatter<'_>) -> fmt::Result {
            write!(f, "channel closed")
        }
    }
    impl std::error::Error for RecvError {}
}
