//! `tokio::sync::mpsc` model (bounded and unbounded).
//!
//! Contract (tokio docs): FIFO; a bounded channel holds at most `cap` values
//! counting reserved permits; `send`/`reserve` fail iff the receiver was
//! dropped or closed; `recv` yields queued values first and `None` only when
//! the queue is empty and (all senders are gone, or the receiver called
//! `close` and no permit is outstanding); `Sender::closed` resolves once the
//! receiver is dropped or closed; dropping the receiver drops queued values.

use crate::cell::Shared;
use std::future::Future;
use std::pin::Pin;
use std::task::{Context, Poll};

pub(crate) struct Chan<T> {
    /// Queued values.  `ManuallyDrop`: the queue is always emptied by the receiver's
    /// destructor (and stays empty afterwards because sends then fail), so the
    /// channel's own drop glue never has a `T` to drop; spelling that out keeps the
    /// (possibly recursive) drop glue of `T` out of every sender's destructor.
    q: std::mem::ManuallyDrop<Vec<Option<T>>>,
    /// Index of the oldest queued value: values are taken out in place and the vector is
    /// never shifted (shifting is a symbolic-size memmove for CBMC).
    head: usize,
    cap: usize,
    reserved: usize,
    senders: usize,
    rx_alive: bool,
    rx_closed: bool,
}

impl<T> Chan<T> {
    fn is_closed(&self) -> bool {
        !self.rx_alive || self.rx_closed
    }
    fn len(&self) -> usize {
        self.q.len() - self.head
    }
    fn has_room(&self) -> bool {
        self.len() + self.reserved < self.cap
    }
    fn push(&mut self, v: T) {
        self.q.push(Some(v));
    }
    fn pop(&mut self) -> Option<T> {
        if self.head >= self.q.len() {
            None
        } else {
            let v = self.q[self.head].take();
            self.head += 1;
            v
        }
    }
    fn finished(&self) -> bool {
        self.len() == 0 && (self.senders == 0 || (self.rx_closed && self.reserved == 0))
    }
}

fn new_chan<T>(cap: usize) -> Shared<Chan<T>> {
    Shared::new(Chan { q: std::mem::ManuallyDrop::new(Vec::new()), head: 0, cap, reserved: 0, senders: 1, rx_alive: true, rx_closed: false })
}

// ---------------------------------------------------------------- bounded

pub struct Sender<T> {
    ch: Shared<Chan<T>>,
}
pub struct Receiver<T> {
    ch: Shared<Chan<T>>,
}
unsafe impl<T: Send> Send for Sender<T> {}
unsafe impl<T: Send> Sync for Sender<T> {}
unsafe impl<T: Send> Send for Receiver<T> {}
unsafe impl<T: Send> Sync for Receiver<T> {}
impl<T> Unpin for Sender<T> {}
impl<T> Unpin for Receiver<T> {}

impl<T> std::fmt::Debug for Sender<T> {
    fn fmt(&self, f: &mut std::fmt::Formatter<'_>) -> std::fmt::Result {
        f.debug_struct("mpsc::Sender").finish()
    }
}
impl<T> std::fmt::Debug for Receiver<T> {
    fn fmt(&self, f: &mut std::fmt::Formatter<'_>) -> std::fmt::Result {
        f.debug_struct("mpsc::Receiver").finish()
    }
}

pub fn channel<T>(buffer: usize) -> (Sender<T>, Receiver<T>) {
    assert!(buffer > 0, "mpsc bounded channel requires buffer > 0");
    let ch = new_chan(buffer);
    (Sender { ch: ch.clone() }, Receiver { ch })
}

impl<T> Clone for Sender<T> {
    fn clone(&self) -> Self {
        self.ch.with(|c| c.senders += 1);
        Sender { ch: self.ch.clone() }
    }
}

impl<T> Drop for Sender<T> {
    fn drop(&mut self) {
        self.ch.with(|c| c.senders -= 1);
    }
}

/// Future of `Sender::send`.
struct SendFut<'a, T> {
    ch: &'a Shared<Chan<T>>,
    val: Option<T>,
}
impl<'a, T> Unpin for SendFut<'a, T> {}
impl<'a, T> Future for SendFut<'a, T> {
    type Output = Result<(), error::SendError<T>>;
    fn poll(mut self: Pin<&mut Self>, _cx: &mut Context<'_>) -> Poll<Self::Output> {
        let this = &mut *self;
        let val = &mut this.val;
        this.ch.with(|c| {
            if c.is_closed() {
                Poll::Ready(Err(error::SendError(val.take().expect("polled after completion"))))
            } else if c.has_room() {
                c.push(val.take().expect("polled after completion"));
                Poll::Ready(Ok(()))
            } else {
                Poll::Pending
            }
        })
    }
}

fn poll_reserve<T>(ch: &Shared<Chan<T>>) -> Poll<Result<(), error::SendError<()>>> {
    ch.with(|c| {
        if c.is_closed() {
            Poll::Ready(Err(error::SendError(())))
        } else if c.has_room() {
            c.reserved += 1;
            Poll::Ready(Ok(()))
        } else {
            Poll::Pending
        }
    })
}

fn try_reserve_int<T>(ch: &Shared<Chan<T>>) -> Result<(), error::TrySendError<()>> {
    ch.with(|c| {
        if c.is_closed() {
            Err(error::TrySendError::Closed(()))
        } else if c.has_room() {
            c.reserved += 1;
            Ok(())
        } else {
            Err(error::TrySendError::Full(()))
        }
    })
}

impl<T> Sender<T> {
    pub fn send(&self, value: T) -> impl Future<Output = Result<(), error::SendError<T>>> + '_ {
        SendFut { ch: &self.ch, val: Some(value) }
    }

    pub fn try_send(&self, value: T) -> Result<(), error::TrySendError<T>> {
        self.ch.with(|c| {
            if c.is_closed() {
                Err(error::TrySendError::Closed(value))
            } else if c.has_room() {
                c.push(value);
                Ok(())
            } else {
                Err(error::TrySendError::Full(value))
            }
        })
    }

    pub async fn reserve(&self) -> Result<Permit<'_, T>, error::SendError<()>> {
        std::future::poll_fn(|_| poll_reserve(&self.ch)).await?;
        Ok(Permit { tx: self, live: true })
    }

    pub fn try_reserve(&self) -> Result<Permit<'_, T>, error::TrySendError<()>> {
        try_reserve_int(&self.ch)?;
        Ok(Permit { tx: self, live: true })
    }

    pub async fn reserve_owned(self) -> Result<OwnedPermit<T>, error::SendError<()>> {
        std::future::poll_fn(|_| poll_reserve(&self.ch)).await?;
        Ok(OwnedPermit { tx: Some(self) })
    }

    pub fn try_reserve_owned(self) -> Result<OwnedPermit<T>, error::TrySendError<Self>> {
        match try_reserve_int(&self.ch) {
            Ok(()) => Ok(OwnedPermit { tx: Some(self) }),
            Err(error::TrySendError::Closed(())) => Err(error::TrySendError::Closed(self)),
            Err(error::TrySendError::Full(())) => Err(error::TrySendError::Full(self)),
        }
    }

    pub async fn closed(&self) {
        std::future::poll_fn(|_| if self.is_closed() { Poll::Ready(()) } else { Poll::Pending }).await
    }

    pub fn is_closed(&self) -> bool {
        self.ch.with(|c| c.is_closed())
    }

    pub fn capacity(&self) -> usize {
        self.ch.with(|c| c.cap - c.len() - c.reserved)
    }

    pub fn max_capacity(&self) -> usize {
        self.ch.with(|c| c.cap)
    }

    pub fn same_channel(&self, other: &Self) -> bool {
        self.ch.same(&other.ch)
    }

    pub fn blocking_send(&self, value: T) -> Result<(), error::SendError<T>> {
        crate::model::block_on(self.send(value), 64)
    }

    /// Model-only: number of queued values (excluding permits).
    pub fn model_len(&self) -> usize {
        self.ch.with(|c| c.len())
    }
}

pub struct Permit<'a, T> {
    tx: &'a Sender<T>,
    live: bool,
}

impl<'a, T> Permit<'a, T> {
    pub fn send(mut self, value: T) {
        self.live = false;
        self.tx.ch.with(|c| {
            c.reserved -= 1;
            c.push(value);
        });
    }
}

impl<'a, T> Drop for Permit<'a, T> {
    fn drop(&mut self) {
        if self.live {
            self.tx.ch.with(|c| c.reserved -= 1);
        }
    }
}

impl<'a, T> std::fmt::Debug for Permit<'a, T> {
    fn fmt(&self, f: &mut std::fmt::Formatter<'_>) -> std::fmt::Result {
        f.debug_struct("Permit").finish()
    }
}

pub struct OwnedPermit<T> {
    tx: Option<Sender<T>>,
}

impl<T> OwnedPermit<T> {
    pub fn send(mut self, value: T) -> Sender<T> {
        let tx = self.tx.take().expect("permit already used");
        tx.ch.with(|c| {
            c.reserved -= 1;
            c.push(value);
        });
        tx
    }

    pub fn release(mut self) -> Sender<T> {
        let tx = self.tx.take().expect("permit already used");
        tx.ch.with(|c| c.reserved -= 1);
        tx
    }
}

impl<T> Drop for OwnedPermit<T> {
    fn drop(&mut self) {
        if let Some(tx) = self.tx.take() {
            tx.ch.with(|c| c.reserved -= 1);
        }
    }
}

impl<T> std::fmt::Debug for OwnedPermit<T> {
    fn fmt(&self, f: &mut std::fmt::Formatter<'_>) -> std::fmt::Result {
        f.debug_struct("OwnedPermit").finish()
    }
}

fn poll_recv_int<T>(ch: &Shared<Chan<T>>) -> Poll<Option<T>> {
    ch.with(|c| {
        if let Some(v) = c.pop() {
            Poll::Ready(Some(v))
        } else if c.finished() {
            Poll::Ready(None)
        } else {
            Poll::Pending
        }
    })
}

fn try_recv_int<T>(ch: &Shared<Chan<T>>) -> Result<T, error::TryRecvError> {
    ch.with(|c| {
        if let Some(v) = c.pop() {
            Ok(v)
        } else if c.finished() {
            Err(error::TryRecvError::Disconnected)
        } else {
            Err(error::TryRecvError::Empty)
        }
    })
}

fn drop_rx<T>(ch: &Shared<Chan<T>>) {
    let q = ch.with(|c| {
        c.rx_alive = false;
        c.head = 0;
        std::mem::take(&mut *c.q)
    });
    drop(q);
}

macro_rules! receiver_common {
    () => {
        pub fn recv(&mut self) -> impl Future<Output = Option<T>> + '_ {
            std::future::poll_fn(|_| poll_recv_int(&self.ch))
        }

        pub fn poll_recv(&mut self, _cx: &mut Context<'_>) -> Poll<Option<T>> {
            poll_recv_int(&self.ch)
        }

        pub fn try_recv(&mut self) -> Result<T, error::TryRecvError> {
            try_recv_int(&self.ch)
        }

        pub async fn recv_many(&mut self, buffer: &mut Vec<T>, limit: usize) -> usize {
            if limit == 0 {
                return 0;
            }
            std::future::poll_fn(|_| {
                let mut n = 0;
                loop {
                    if n >= limit {
                        return Poll::Ready(n);
                    }
                    match poll_recv_int(&self.ch) {
                        Poll::Ready(Some(v)) => {
                            buffer.push(v);
                            n += 1;
                        }
                        Poll::Ready(None) => return Poll::Ready(n),
                        Poll::Pending => {
                            if n > 0 {
                                return Poll::Ready(n);
                            } else {
                                return Poll::Pending;
                            }
                        }
                    }
                }
            })
            .await
        }

        pub fn close(&mut self) {
            self.ch.with(|c| c.rx_closed = true);
        }

        pub fn is_closed(&self) -> bool {
            self.ch.with(|c| c.rx_closed || c.senders == 0)
        }

        pub fn is_empty(&self) -> bool {
            self.ch.with(|c| c.len() == 0)
        }

        pub fn len(&self) -> usize {
            self.ch.with(|c| c.len())
        }

        pub fn blocking_recv(&mut self) -> Option<T> {
            crate::model::block_on(self.recv(), 64)
        }
    };
}

impl<T> Receiver<T> {
    receiver_common!();

    pub fn capacity(&self) -> usize {
        self.ch.with(|c| c.cap - c.len() - c.reserved)
    }
    pub fn max_capacity(&self) -> usize {
        self.ch.with(|c| c.cap)
    }
}

impl<T> Drop for Receiver<T> {
    fn drop(&mut self) {
        drop_rx(&self.ch);
    }
}

// -------------------------------------------------------------- unbounded

pub struct UnboundedSender<T> {
    ch: Shared<Chan<T>>,
}
pub struct UnboundedReceiver<T> {
    ch: Shared<Chan<T>>,
}
unsafe impl<T: Send> Send for UnboundedSender<T> {}
unsafe impl<T: Send> Sync for UnboundedSender<T> {}
unsafe impl<T: Send> Send for UnboundedReceiver<T> {}
unsafe impl<T: Send> Sync for UnboundedReceiver<T> {}
impl<T> Unpin for UnboundedSender<T> {}
impl<T> Unpin for UnboundedReceiver<T> {}

impl<T> std::fmt::Debug for UnboundedSender<T> {
    fn fmt(&self, f: &mut std::fmt::Formatter<'_>) -> std::fmt::Result {
        f.debug_struct("mpsc::UnboundedSender").finish()
    }
}
impl<T> std::fmt::Debug for UnboundedReceiver<T> {
    fn fmt(&self, f: &mut std::fmt::Formatter<'_>) -> std::fmt::Result {
        f.debug_struct("mpsc::UnboundedReceiver").finish()
    }
}

pub fn unbounded_channel<T>() -> (UnboundedSender<T>, UnboundedReceiver<T>) {
    let ch = new_chan(usize::MAX);
    (UnboundedSender { ch: ch.clone() }, UnboundedReceiver { ch })
}

impl<T> Clone for UnboundedSender<T> {
    fn clone(&self) -> Self {
        self.ch.with(|c| c.senders += 1);
        UnboundedSender { ch: self.ch.clone() }
    }
}

impl<T> Drop for UnboundedSender<T> {
    fn drop(&mut self) {
        self.ch.with(|c| c.senders -= 1);
    }
}

impl<T> UnboundedSender<T> {
    pub fn send(&self, value: T) -> Result<(), error::SendError<T>> {
        self.ch.with(|c| {
            if c.is_closed() {
                Err(error::SendError(value))
            } else {
                c.push(value);
                Ok(())
            }
        })
    }

    pub async fn closed(&self) {
        std::future::poll_fn(|_| if self.is_closed() { Poll::Ready(()) } else { Poll::Pending }).await
    }

    pub fn is_closed(&self) -> bool {
        self.ch.with(|c| c.is_closed())
    }

    pub fn same_channel(&self, other: &Self) -> bool {
        self.ch.same(&other.ch)
    }

    /// Model-only: number of queued values.
    pub fn model_len(&self) -> usize {
        self.ch.with(|c| c.len())
    }
}

impl<T> UnboundedReceiver<T> {
    receiver_common!();
}

impl<T> Drop for UnboundedReceiver<T> {
    fn drop(&mut self) {
        drop_rx(&self.ch);
    }
}

pub mod error {
    use std::fmt;

    #[derive(PartialEq, Eq, Clone, Copy)]
    pub struct SendError<T>(pub T);
    impl<T> fmt::Debug for SendError<T> {
        fn fmt(&self, f: &mut fmt::Formatter<'_>) -> fmt::Result {
            f.debug_struct("SendError").finish_non_exhaustive()
        }
    }
    impl<T> fmt::Display for SendError<T> {
        fn fmt(&self, f: &mut fmt::Formatter<'_>) -> fmt::Result {
            write!(f, "channel closed")
        }
    }
    impl<T> std::error::Error for SendError<T> {}

    #[derive(PartialEq, Eq, Clone, Copy)]
    pub enum TrySendError<T> {
        Full(T),
        Closed(T),
    }
    impl<T> TrySendError<T> {
        pub fn into_inner(self) -> T {
            match self {
                TrySendError::Full(v) | TrySendError::Closed(v) => v,
            }
        }
    }
    impl<T> fmt::Debug for TrySendError<T> {
        fn fmt(&self, f: &mut fmt::Formatter<'_>) -> fmt::Result {
            match self {
                TrySendError::Full(..) => "Full(..)".fmt(f),
                TrySendError::Closed(..) => "Closed(..)".fmt(f),
            }
        }
    }
    impl<T> fmt::Display for TrySendError<T> {
        fn fmt(&self, f: &mut fmt::Formatter<'_>) -> fmt::Result {
            match self {
                TrySendError::Full(..) => write!(f, "no available capacity"),
                TrySendError::Closed(..) => write!(f, "channel closed"),
            }
        }
    }
    impl<T> std::error::Error for TrySendError<T> {}
    impl<T> From<SendError<T>> for TrySendError<T> {
        fn from(src: SendError<T>) -> TrySendError<T> {
            TrySendError::Closed(src.0)
        }
    }

    #[derive(PartialEq, Eq, Clone, Copy, Debug)]
    pub enum TryRecvError {
        Empty,
        Disconnected,
    }
    impl fmt::Display for TryRecvError {
        fn fmt(&self, f: &mut fmt::Formatter<'_>) -> fmt::Result {
            match self {
                TryRecvError::Empty => write!(f, "receiving on an empty channel"),
                TryRecvError::Disconnected => write!(f, "receiving on a closed channel"),
            }
        }
    }
    impl std::error::Error for TryRecvError {}
}
