//! `tokio::sync::OnceCell` model.

use std::cell::UnsafeCell;
use std::future::Future;

pub struct OnceCell<T> {
    val: UnsafeCell<Option<T>>,
}
unsafe impl<T: Send> Send for OnceCell<T> {}
unsafe impl<T: Send + Sync> Sync for OnceCell<T> {}

impl<T> OnceCell<T> {
    pub const fn const_new() -> Self {
        OnceCell { val: UnsafeCell::new(None) }
    }
    pub fn new() -> Self {
        Self::const_new()
    }
    pub fn get(&self) -> Option<&T> {
        unsafe { (*self.val.get()).as_ref() }
    }
    pub fn initialized(&self) -> bool {
        self.get().is_some()
    }
    pub async fn get_or_init<F, Fut>(&self, f: F) -> &T
    where
        F: FnOnce() -> Fut,
        Fut: Future<Output = T>,
    {
        if self.get().is_none() {
            let v = f().await;
            unsafe {
                if (*self.val.get()).is_none() {
                    *self.val.get() = Some(v);
                }
            }
        }
        self.get().unwrap()
    }
    pub fn set(&self, value: T) -> Result<(), T> {
        unsafe {
            if (*self.val.get()).is_some() {
                Err(value)
            } else {
                *self.val.get() = Some(value);
                Ok(())
            }
        }
    }
}
