//! `tokio::sync::oneshot` model.
//!
//! Contract (tokio docs): `send` fails with the value iff the receiver was
//! dropped or closed; the receiver resolves to `Ok(v)` if a value was sent,
//! otherwise to `Err(RecvError)` once the sender is gone; `Sender::closed`
//! resolves once the receiver is dropped or closed.

use crate::cell::Shared;
use std::future::Future;
use std::pin::Pin;
use std::task::{Context, Poll};

struct Inner<T> {
    /// `ManuallyDrop`: an undelivered value is always dropped by the receiver's
    /// destructor (a send after that fails and hands the value back), so the cell's
    /// own drop glue never has a `T` to drop.
    val: std::mem::ManuallyDrop<Option<T>>,
    tx_alive: bool,
    rx_alive: bool,
    rx_closed: bool,
    done: bool,
}

pub struct Sender<T> {
    ch: Shared<Inner<T>>,
}
pub struct Receiver<T> {
    ch: Shared<Inner<T>>,
}

unsafe impl<T: Send> Send for Sender<T> {}
unsafe impl<T: Send> Sync for Sender<T> {}
unsafe impl<T: Send> Send for Receiver<T> {}
unsafe impl<T: Send> Sync for Receiver<T> {}
impl<T> Unpin for Receiver<T> {}

impl<T> std::fmt::Debug for Sender<T> {
    fn fmt(&self, f: &mut std::fmt::Formatter<'_>) -> std::fmt::Result {
        f.debug_struct("oneshot::Sender").finish()
    }
}
impl<T> std::fmt::Debug for Receiver<T> {
    fn fmt(&self, f: &mut std::fmt::Formatter<'_>) -> std::fmt::Result {
        f.debug_struct("oneshot::Receiver").finish()
    }
}

pub fn channel<T>() -> (Sender<T>, Receiver<T>) {
    let ch = Shared::new(Inner { val: std::mem::ManuallyDrop::new(None), tx_alive: true, rx_alive: true, rx_closed: false, done: false });
    (Sender { ch: ch.clone() }, Receiver { ch })
}

impl<T> Sender<T> {
    pub fn send(self, t: T) -> Result<(), T> {
        self.ch.with(|c| {
            if !c.rx_alive || c.rx_closed {
                Err(t)
            } else {
                *c.val = Some(t);
                Ok(())
            }
        })
        // `self` dropped here: tx_alive = false
    }

    pub fn is_closed(&self) -> bool {
        self.ch.with(|c| !c.rx_alive || c.rx_closed)
    }

    pub fn poll_closed(&mut self, _cx: &mut Context<'_>) -> Poll<()> {
        if self.is_closed() { Poll::Ready(()) } else { Poll::Pending }
    }

    pub async fn closed(&mut self) {
        std::future::poll_fn(|cx| self.poll_closed(cx)).await
    }
}

impl<T> Drop for Sender<T> {
    fn drop(&mut self) {
        self.ch.with(|c| c.tx_alive = false);
    }
}

impl<T> Receiver<T> {
    pub fn close(&mut self) {
        self.ch.with(|c| c.rx_closed = true);
    }

    pub fn try_recv(&mut self) -> Result<T, error::TryRecvError> {
        self.ch.with(|c| {
            if let Some(v) = c.val.take() {
                c.done = true;
                Ok(v)
            } else if !c.tx_alive || c.done {
                c.done = true;
                Err(error::TryRecvError::Closed)
            } else {
                Err(error::TryRecvError::Empty)
            }
        })
    }

    pub fn blocking_recv(self) -> Result<T, error::RecvError> {
        crate::model::block_on(self, 64)
    }

    pub fn is_terminated(&self) -> bool {
        self.ch.with(|c| c.done)
    }
}

impl<T> Future for Receiver<T> {
    type Output = Result<T, error::RecvError>;
    fn poll(self: Pin<&mut Self>, _cx: &mut Context<'_>) -> Poll<Self::Output> {
        self.ch.with(|c| {
            if c.done {
                panic!("called after complete");
            }
            if let Some(v) = c.val.take() {
                c.done = true;
                Poll::Ready(Ok(v))
            } else if !c.tx_alive {
                c.done = true;
                Poll::Ready(Err(error::RecvError(())))
            } else {
                Poll::Pending
            }
        })
    }
}

impl<T> Drop for Receiver<T> {
    fn drop(&mut self) {
        let v = self.ch.with(|c| {
            c.rx_alive = false;
            c.val.take()
        });
        drop(v);
    }
}

pub mod error {
    #[derive(Debug, Eq, PartialEq, Clone)]
    pub struct RecvError(pub(crate) ());
    impl std::fmt::Display for RecvError {
        fn fmt(&self, f: &mut std::fmt::Formatter<'_>) -> std::fmt::Result {
            write!(f, "channel closed")
        }
    }
    impl std::error::Error for RecvError {}

    #[derive(Debug, Eq, PartialEq, Clone)]
    pub enum TryRecvError {
        Empty,
        Closed,
    }
    impl std::fmt::Display for TryRecvError {
        fn fmt(&self, f: &mut std::fmt::Formatter<'_>) -> std::fmt::Result {
            match self {
                TryRecvError::Empty => write!(f, "channel empty"),
                TryRecvError::Closed => write!(f, "channel closed"),
            }
        }
    }
    impl std::error::Error for TryRecvError {}
}
