//! `tokio::runtime` — only what remoc names.

use std::future::Future;

#[derive(Debug, Clone)]
pub struct Handle;

#[derive(Debug)]
pub struct TryCurrentError;
impl std::fmt::Display for TryCurrentError {
    fn fmt(&self, f: &mut std::fmt::Formatter<'_>) -> std::fmt::Result {
        write!(f, "no runtime")
    }
}
impl std::error::Error for TryCurrentError {}

impl Handle {
    pub fn current() -> Self {
        Handle
    }
    pub fn try_current() -> Result<Self, TryCurrentError> {
        Ok(Handle)
    }
    pub fn spawn<F>(&self, fut: F) -> crate::task::JoinHandle<F::Output>
    where
        F: Future + Send + 'static,
        F::Output: Send + 'static,
    {
        crate::task::spawn(fut)
    }
    pub fn block_on<F: Future>(&self, fut: F) -> F::Output {
        crate::model::block_on(fut, 64)
    }
}

pub struct Runtime;
impl Runtime {
    pub fn block_on<F: Future>(&self, fut: F) -> F::Output {
        crate::model::block_on(fut, 64)
    }
    pub fn handle(&self) -> &Handle {
        &Handle
    }
}

pub struct Builder;
impl Builder {
    pub fn new_current_thread() -> Self {
        Builder
    }
    pub fn new_multi_thread() -> Self {
        Builder
    }
    pub fn enable_all(&mut self) -> &mut Self {
        self
    }
    pub fn enable_time(&mut self) -> &mut Self {
        self
    }
    pub fn build(&mut self) -> std::io::Result<Runtime> {
        Ok(Runtime)
    }
}
