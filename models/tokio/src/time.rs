//! `tokio::time` on the model's virtual clock (`model::advance`).

use std::future::Future;
use std::pin::Pin;
use std::task::{Context, Poll};
use std::time::Duration;

#[derive(Debug)]
pub struct Sleep {
    deadline: Duration,
}

pub fn sleep(d: Duration) -> Sleep {
    Sleep { deadline: crate::model::now().saturating_add(d) }
}

impl Sleep {
    pub fn is_elapsed(&self) -> bool {
        crate::model::now() >= self.deadline
    }
}

impl Future for Sleep {
    type Output = ();
    fn poll(self: Pin<&mut Self>, _cx: &mut Context<'_>) -> Poll<()> {
        if crate::model::now() >= self.deadline { Poll::Ready(()) } else { Poll::Pending }
    }
}

#[derive(Debug)]
pub struct Timeout<F> {
    fut: F,
    deadline: Duration,
}

pub fn timeout<F: Future>(d: Duration, fut: F) -> Timeout<F> {
    Timeout { fut, deadline: crate::model::now().saturating_add(d) }
}

impl<F: Future> Future for Timeout<F> {
    type Output = Result<F::Output, error::Elapsed>;
    fn poll(self: Pin<&mut Self>, cx: &mut Context<'_>) -> Poll<Self::Output> {
        // Safety: `fut` is structurally pinned and never moved.
        let this = unsafe { self.get_unchecked_mut() };
        if let Poll::Ready(v) = unsafe { Pin::new_unchecked(&mut this.fut) }.poll(cx) {
            return Poll::Ready(Ok(v));
        }
        if crate::model::now() >= this.deadline { Poll::Ready(Err(error::Elapsed(()))) } else { Poll::Pending }
    }
}

pub mod error {
    #[derive(Debug, PartialEq, Eq)]
    pub struct Elapsed(pub(crate) ());
    impl std::fmt::Display for Elapsed {
        fn fmt(&self, f: &mut std::fmt::Formatter<'_>) -> std::fmt::Result {
            write!(f, "deadline has elapsed")
        }
    }
    impl std::error::Error for Elapsed {}
    impl From<Elapsed> for std::io::Error {
        fn from(_: Elapsed) -> Self {
            std::io::ErrorKind::TimedOut.into()
        }
    }
}
