//! MODEL of tracing-attributes: `#[instrument(..)]` leaves the item unchanged.
use proc_macro::TokenStream;

#[proc_macro_attribute]
pub fn instrument(_args: TokenStream, item: TokenStream) -> TokenStream {
    item
}
