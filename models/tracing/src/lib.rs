//! MODEL of the tracing API subset that remoc names.  Log statements and spans
//! are not the subject of any property; all of them are no-ops here.

pub use tracing_attributes::instrument;

#[macro_export]
macro_rules! trace { ($($t:tt)*) => {{}}; }
#[macro_export]
macro_rules! debug { ($($t:tt)*) => {{}}; }
#[macro_export]
macro_rules! info { ($($t:tt)*) => {{}}; }
#[macro_export]
macro_rules! warn { ($($t:tt)*) => {{}}; }
#[macro_export]
macro_rules! error { ($($t:tt)*) => {{}}; }
#[macro_export]
macro_rules! event { ($($t:tt)*) => {{}}; }
#[macro_export]
macro_rules! span { ($($t:tt)*) => { $crate::Span::none() }; }
#[macro_export]
macro_rules! trace_span { ($($t:tt)*) => { $crate::Span::none() }; }
#[macro_export]
macro_rules! debug_span { ($($t:tt)*) => { $crate::Span::none() }; }
#[macro_export]
macro_rules! info_span { ($($t:tt)*) => { $crate::Span::none() }; }
#[macro_export]
macro_rules! warn_span { ($($t:tt)*) => { $crate::Span::none() }; }
#[macro_export]
macro_rules! error_span { ($($t:tt)*) => { $crate::Span::none() }; }

#[derive(Debug, Clone, Copy, PartialEq, Eq, PartialOrd, Ord)]
pub struct Level(u8);
impl Level {
    pub const ERROR: Level = Level(1);
    pub const WARN: Level = Level(2);
    pub const INFO: Level = Level(3);
    pub const DEBUG: Level = Level(4);
    pub const TRACE: Level = Level(5);
}

#[derive(Debug, Clone, Default)]
pub struct Span;

pub struct Entered;

impl Span {
    pub fn none() -> Span {
        Span
    }
    pub fn current() -> Span {
        Span
    }
    pub fn record<Q: ?Sized, V>(&self, _field: &Q, _value: V) -> &Self {
        self
    }
    pub fn enter(&self) -> Entered {
        Entered
    }
    pub fn entered(self) -> Entered {
        Entered
    }
    pub fn in_scope<F: FnOnce() -> T, T>(&self, f: F) -> T {
        f()
    }
    pub fn is_none(&self) -> bool {
        true
    }
}

pub mod field {
    pub struct DebugValue<T>(pub T);
    pub struct DisplayValue<T>(pub T);
    pub fn debug<T: std::fmt::Debug>(t: T) -> DebugValue<T> {
        DebugValue(t)
    }
    pub fn display<T: std::fmt::Display>(t: T) -> DisplayValue<T> {
        DisplayValue(t)
    }
    pub struct Empty;
}

/// `tracing::Instrument`: attaching a span is the identity.
pub trait Instrument: Sized {
    fn instrument(self, _span: Span) -> Self {
        self
    }
    fn in_current_span(self) -> Self {
        self
    }
}
impl<T: Sized> Instrument for T {}

pub mod instrument {
    pub use super::Instrument;
}
