//! MODEL of the tokio-util API subset that remoc compiles against.
//!
//! `sync::ReusableBoxFuture` is a plain `Pin<Box<dyn Future>>` (same observable
//! behaviour, no allocation reuse).  `codec::LengthDelimitedCodec` and
//! `io::StreamReader` exist only so that `remoc::Connect::io` compiles; no
//! harness reaches them and their bodies panic (reaching one is a visible
//! failure, never a silent pass).
#![allow(dead_code, unused_variables)]

pub mod sync {
    use std::future::Future;
    use std::pin::Pin;
    use std::task::{Context, Poll};

    pub struct ReusableBoxFuture<'a, T> {
        boxed: Pin<Box<dyn Future<Output = T> + Send + 'a>>,
    }

    impl<'a, T> ReusableBoxFuture<'a, T> {
        pub fn new<F>(future: F) -> Self
        where
            F: Future<Output = T> + Send + 'a,
        {
            Self { boxed: Box::pin(future) }
        }
        pub fn set<F>(&mut self, future: F)
        where
            F: Future<Output = T> + Send + 'a,
        {
            self.boxed = Box::pin(future);
        }
        pub fn try_set<F>(&mut self, future: F) -> Result<(), F>
        where
            F: Future<Output = T> + Send + 'a,
        {
            self.set(future);
            Ok(())
        }
        pub fn get_pin(&mut self) -> Pin<&mut (dyn Future<Output = T> + Send)> {
            self.boxed.as_mut()
        }
        pub fn poll(&mut self, cx: &mut Context<'_>) -> Poll<T> {
            self.get_pin().poll(cx)
        }
    }

    impl<T> Future for ReusableBoxFuture<'_, T> {
        type Output = T;
        fn poll(self: Pin<&mut Self>, cx: &mut Context<'_>) -> Poll<T> {
            Pin::into_inner(self).get_pin().poll(cx)
        }
    }

    unsafe impl<T> Sync for ReusableBoxFuture<'_, T> {}

    impl<T> std::fmt::Debug for ReusableBoxFuture<'_, T> {
        fn fmt(&self, f: &mut std::fmt::Formatter<'_>) -> std::fmt::Result {
            f.debug_struct("ReusableBoxFuture").finish()
        }
    }
}

pub mod codec {
    use bytes::{Bytes, BytesMut};
    use std::io;
    use std::pin::Pin;
    use std::task::{Context, Poll};
    use tokio::io::{AsyncRead, AsyncWrite};

    #[derive(Debug, Clone)]
    pub struct LengthDelimitedCodec;

    #[derive(Debug, Clone)]
    pub struct Builder;

    impl LengthDelimitedCodec {
        pub fn builder() -> Builder {
            Builder
        }
        pub fn new() -> Self {
            LengthDelimitedCodec
        }
    }

    impl Builder {
        pub fn little_endian(&mut self) -> &mut Self {
            self
        }
        pub fn big_endian(&mut self) -> &mut Self {
            self
        }
        pub fn length_field_length(&mut self, _val: usize) -> &mut Self {
            self
        }
        pub fn max_frame_length(&mut self, _val: usize) -> &mut Self {
            self
        }
        pub fn new_write<T: AsyncWrite>(&self, inner: T) -> FramedWrite<T, LengthDelimitedCodec> {
            FramedWrite { inner, codec: LengthDelimitedCodec }
        }
        pub fn new_read<T: AsyncRead>(&self, inner: T) -> FramedRead<T, LengthDelimitedCodec> {
            FramedRead { inner, codec: LengthDelimitedCodec }
        }
    }

    pub struct FramedWrite<T, C> {
        inner: T,
        codec: C,
    }
    pub struct FramedRead<T, C> {
        inner: T,
        codec: C,
    }
    impl<T: Unpin, C> Unpin for FramedWrite<T, C> {}
    impl<T: Unpin, C> Unpin for FramedRead<T, C> {}

    impl<T: AsyncWrite> futures_sink::Sink<Bytes> for FramedWrite<T, LengthDelimitedCodec> {
        type Error = io::Error;
        fn poll_ready(self: Pin<&mut Self>, _: &mut Context<'_>) -> Poll<Result<(), io::Error>> {
            unimplemented!("tokio-util model: length-delimited framing is outside every harness")
        }
        fn start_send(self: Pin<&mut Self>, _: Bytes) -> Result<(), io::Error> {
            unimplemented!("tokio-util model: length-delimited framing is outside every harness")
        }
        fn poll_flush(self: Pin<&mut Self>, _: &mut Context<'_>) -> Poll<Result<(), io::Error>> {
            unimplemented!("tokio-util model: length-delimited framing is outside every harness")
        }
        fn poll_close(self: Pin<&mut Self>, _: &mut Context<'_>) -> Poll<Result<(), io::Error>> {
            unimplemented!("tokio-util model: length-delimited framing is outside every harness")
        }
    }

    impl<T: AsyncRead> futures_core::Stream for FramedRead<T, LengthDelimitedCodec> {
        type Item = Result<BytesMut, io::Error>;
        fn poll_next(self: Pin<&mut Self>, _: &mut Context<'_>) -> Poll<Option<Self::Item>> {
            unimplemented!("tokio-util model: length-delimited framing is outside every harness")
        }
    }
}

pub mod io {
    use bytes::Buf;
    use std::pin::Pin;
    use std::task::{Context, Poll};
    use tokio::io::{AsyncRead, ReadBuf};

    pub struct StreamReader<S, B> {
        inner: S,
        chunk: Option<B>,
    }

    impl<S, B, E> StreamReader<S, B>
    where
        S: futures_core::Stream<Item = Result<B, E>>,
        B: Buf,
        E: Into<std::io::Error>,
    {
        pub fn new(stream: S) -> Self {
            StreamReader { inner: stream, chunk: None }
        }
        pub fn into_inner(self) -> S {
            self.inner
        }
    }

    impl<S, B, E> AsyncRead for StreamReader<S, B>
    where
        S: futures_core::Stream<Item = Result<B, E>>,
        B: Buf,
        E: Into<std::io::Error>,
    {
        fn poll_read(self: Pin<&mut Self>, _: &mut Context<'_>, _: &mut ReadBuf<'_>) -> Poll<std::io::Result<()>> {
            unimplemented!("tokio-util model: StreamReader is outside every harness")
        }
    }
}
