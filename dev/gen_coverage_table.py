#!/usr/bin/env python3
"""Regenerates DESIGN.md section 0.9 (as-built coverage per property) from the harness registry."""
import sys, os, json
ROOT=os.path.dirname(os.path.dirname(os.path.abspath(__file__)))
sys.path.insert(0,os.path.join(ROOT,'driver')); import harnesses as hreg
hs=hreg.load(os.path.join(ROOT,'kani','harness'))
valid=[json.loads(l)['id'] for l in open(os.path.join(ROOT,'properties.jsonl'))]
props=[p for p in valid if any(p in h.props for h in hs)]
lines=["### 0.9 As-built coverage per property (generated from the harness registry)\n",
"| property | quick / thorough / off harnesses | real functions executed symbolically (registered harnesses) |","|---|---|---|"]
for p in props:
    q=[h for h in hs if p in h.props and h.tier=='quick']; t=[h for h in hs if p in h.props and h.tier=='thorough']; o=[h for h in hs if p in h.props and h.tier=='off']
    fns=sorted({f for h in q+t for f in h.fns})
    lines.append("| %s | %d / %d / %d | %s |"%(p,len(q),len(q)+len(t),len(o),"; ".join("`%s`"%f for f in fns)))
lines.append("\n(The thorough column counts quick + thorough-only harnesses; off = in the tree, not run, outside the claim.  A harness may serve several properties.)\n")
p=os.path.join(ROOT,'DESIGN.md'); s=open(p).read()
marker="### 0.9 As-built coverage per property"
b=s.index(marker); e=s.index("--------------------------------------------------------------------------",b)
s=s[:b]+"\n".join(lines)+"\n"+s[e:]
open(p,'w').write(s)
print("table regenerated:",len(props),"properties")
