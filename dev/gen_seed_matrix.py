#!/usr/bin/env python3
"""Builds the seed/detection matrix (markdown) from seeded/*/meta.json + detection.txt; prints it or, with --write, puts it into DESIGN.md section 7 (@MATRIX@ placeholder or between the matrix markers)."""
import json, os, re, sys, glob
ROOT=os.path.dirname(os.path.dirname(os.path.abspath(__file__)))
MISS = {
 'C01-a1': 'change is inside Receiver::recv_any (symbolic execution of that coroutine does not finish, 0.6)',
 'C03-a1': 'needs return_flush cancelled while pending: the deferred return is a boxed coroutine holding a PortEvt; the harness written for it (358 k steps) gets no verdict in 500 s',
 'C03-a2': 'change is inside the batching loop of Sender::connect (async); only its per-message bound is decided',
 'C07-a1': 'change is inside ChMux::new (async hello exchange); the harness fixture duplicates the construction statements (0.6)',
 'C10-a2': 'same change as C07-a1',
 'C08-a1': 'PortData dispatcher harnesses (c02_msg_port_data_2: the duplicate-inside-one-frame case is asserted there) exceed 1 M steps and are not registered',
 'C14-a1': 'broadcast lag task (spawned coroutine over rch::mpsc); C16-class code, not encodable (0.6)',
 'C16-a1': 'rch::broadcast::Sender::send with one subscriber: 305 k steps, out of memory (0.6); C16 not claimed',
 'C16-a2': 'broadcast lag task; C16 not claimed',
 'C18-a1': 'change is in a serde Deserialize impl (transport of the sender); only the accounting kernels are decided',
 'C20-a1': 'serde Serialize impl of Handle; C20 not claimed',
 'C20-a2': 'LazyBlob::fetch coroutine; C20 not claimed',
}
rows=[]
for d in sorted(glob.glob(os.path.join(ROOT,'seeded','*'))):
    k=os.path.basename(d)
    m=json.load(open(os.path.join(d,'meta.json')))
    det=[]
    p=os.path.join(d,'detection.txt')
    if os.path.exists(p):
        for l in open(p):
            mm=re.search(r'check=(\S+) rc=(\d+) violations=(\d+) failing_harnesses=\[(.*?)\]',l)
            if mm and mm.group(2) in ('0','1','2'):
                det.append((mm.group(1),int(mm.group(2)),mm.group(4).split()))
    if any(rc==1 for _,rc,_ in det):
        hit=[(c,h) for c,rc,h in det if rc==1][0]
        verdict='**seen** by `./check %s`: %s'%(hit[0].replace('/',' '),', '.join('`%s`'%x for x in hit[1][:3]))
    elif det:
        verdict='missed (%s exit %s): %s'%(det[-1][0],det[-1][1],MISS.get(k,''))
    else:
        verdict='not run - expected miss: %s'%MISS.get(k,'')
    rows.append('| %s | %s | %s | %s |'%(k,m['site'].replace('remoc/src/',''),m['change'],verdict))
table='| seed | site | change | verdict of the registered check |\n|---|---|---|---|\n'+'\n'.join(rows)
seen=sum(1 for r in rows if '**seen**' in r)
table+='\n\n%d of %d seeded changes are seen by the check of the property they were written against.'%(seen,len(rows))
if '--write' in sys.argv:
    p=os.path.join(ROOT,'DESIGN.md'); s=open(p).read()
    if '@MATRIX@' in s: s=s.replace('@MATRIX@','<!-- matrix-begin -->\n'+table+'\n<!-- matrix-end -->')
    else: s=re.sub(r'<!-- matrix-begin -->.*?<!-- matrix-end -->','<!-- matrix-begin -->\n'+table.replace('\\','\\\\')+'\n<!-- matrix-end -->',s,flags=re.S)
    open(p,'w').write(s)
print(table)
