#!/bin/bash
# dev helper: ./dev/k.sh <target-no> <cap-s> <harness-name-regex or full names...>  -> runs cargo kani on matching harnesses, prints summary
T=$1; CAP=$2; shift 2
export REMOC_REPO=/tmp/repo-dev; cd /verif && python3 -c "
import sys; sys.path.insert(0,'driver'); import gencrate; gencrate.generate('/verif','/verif/.work/crate-dev')"
sed -i "s#/verif/kani/harness/mod.rs#${HARNESS_DIR:-/verif/kani/harness}/mod.rs#" /verif/.work/crate-dev/harness_entry.rs
cd /verif/.work/crate-dev
export CARGO_NET_OFFLINE=true RUSTFLAGS="--cfg remoc_verif" REMOC_VERIF_HARNESS=/verif/.work/crate-dev/harness_entry.rs
[ -d /verif/.work/target-$T ] || cp -a --reflink=auto /verif/.work/target-0 /verif/.work/target-$T
H=""; for n in "$@"; do H="$H --harness $n"; done
LOG=/verif/.work/logs/dev-$T.log
( time timeout $((CAP*${#@}+300)) cargo kani -Z stubbing -Z unstable-options -Z restrict-vtable --no-default-features --features serde,rch,robs,robj,default-codec-postbag --target-dir /verif/.work/target-$T --harness-timeout ${CAP}s $H $KANI_EXTRA --cbmc-args --max-field-sensitivity-array-size 4096 $CBMC_EXTRA ) > $LOG 2>&1
grep -n "^error\|Checking harness\|Runtime Symex\|program expression\|VCC\|Convert SSA\|variables,\|Runtime decision\|VERIFICATION\|Verification Time\|Failed Checks\|cover properties\|timed out\|^real" $LOG | cut -c1-220 | tail -60
