#!/bin/bash
# runs the listed "seed prop tier" triples sequentially
while read S P T; do [ -z "$S" ] && continue; /verif/dev/run_seed.sh $S $T $P; done
