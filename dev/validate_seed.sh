#!/bin/bash
# validate_seed.sh <dir with patch.diff demo.diff> : confirms in a scratch worktree that
#  (a) patch compiles and the full existing suite passes with it, (b) demo fails with patch, (c) demo passes without.
# Writes <dir>/validation.txt. Worktree and build output removed afterwards (shared target dir kept in /tmp/seedcheck-target until caller removes it).
D=$(readlink -f $1); WT=/tmp/seedcheck-wt; export CARGO_TARGET_DIR=/tmp/seedcheck-target CARGO_NET_OFFLINE=true
OUT=$D/validation.txt; : > $OUT
git -C /repo worktree remove --force $WT 2>/dev/null; git -C /repo worktree add --detach $WT HEAD -q || exit 2
cd $WT
git apply $D/patch.diff || { echo "patch does not apply" >> $OUT; exit 2; }
# (a) full existing suite with the patch (no demo)
cargo test --workspace --no-fail-fast --offline > $D/val_suite_with_patch.log 2>&1
A=$(grep -h "^test result" $D/val_suite_with_patch.log | awk '{p+=$4; f+=$6} END {print p" passed "f" failed"}')
echo "suite with patch: $A" >> $OUT
git apply $D/demo.diff || { echo "demo does not apply" >> $OUT; exit 2; }
NEW=$(git status --porcelain | grep '^??' | awk '{print $2}' | grep '\.rs$' | head -3 | tr '\n' ' ')
# demo test name filter: module name = file stem of new test file(s)
FILT=$(for f in $NEW; do basename $f .rs; done | head -1)
[ -z "$FILT" ] && FILT=$(git diff --stat | grep tests | head -1 | awk '{print $1}' | xargs -I{} basename {} .rs)
echo "demo filter: $FILT (new files: $NEW)" >> $OUT
cargo test --offline -p remoc --test tests -- $FILT > $D/val_demo_with_patch.log 2>&1
echo "demo with patch: $(grep -h '^test result' $D/val_demo_with_patch.log | head -1)" >> $OUT
git apply -R $D/patch.diff
cargo test --offline -p remoc --test tests -- $FILT > $D/val_demo_without_patch.log 2>&1
echo "demo without patch: $(grep -h '^test result' $D/val_demo_without_patch.log | head -1)" >> $OUT
cd /; git -C /repo worktree remove --force $WT
cat $OUT
