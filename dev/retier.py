#!/usr/bin/env python3
"""dev: derive kani/tiers.json + kani/timings.json from one or more evidence files of full runs.
usage: retier.py evidence/ALL.json [more.json ...]   (later files override earlier ones per harness)"""
import json, sys
QUICK_MAX, THOROUGH_MAX = 150.0, 900.0
res = {}
for p in sys.argv[1:]:
    for s in json.load(open(p))['coverage']['samples']:
        res[s['harness']] = s
tiers = json.load(open('kani/tiers.json'))
comment = tiers.get('_comment')
keep_off = set()  # harnesses deliberately off regardless of timing
try:
    timings = json.load(open('kani/timings.json'))
except Exception:
    timings = {}
thorough, off = set(tiers.get('thorough', [])), set(tiers.get('off', []))
for name, s in res.items():
    t = s['verification_s']
    ok = s['verdict'] == 'pass' or (s.get('known_finding') and s['cbmc_status'] in ('failed',))
    if t > 0:
        timings[name] = round(t, 1)
    thorough.discard(name); off.discard(name)
    if not ok:
        off.add(name)
    elif t > THOROUGH_MAX:
        off.add(name)
    elif t > QUICK_MAX:
        thorough.add(name)
json.dump({'thorough': sorted(thorough), 'off': sorted(off), '_comment': comment}, open('kani/tiers.json', 'w'), indent=1)
json.dump(timings, open('kani/timings.json', 'w'), indent=1, sort_keys=True)
print('quick-eligible:', sum(1 for n, s in res.items() if n not in thorough and n not in off), 'thorough:', len(thorough), 'off:', len(off))
for n in sorted(off):
    s = res.get(n)
    if s: print('  off:', n, s['verdict'], s['cbmc_status'], s['verification_s'], (s.get('failed_checks') or [''])[0][:80])
