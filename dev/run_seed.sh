#!/bin/bash
# run_seed.sh <seed-dir-name> <tier> [prop]  : applies the seed to /repo, runs ./check <prop> <tier>, reverts, appends verdict to seeded/<seed>/detection.txt
S=$1; TIER=${2:-quick}; P=${3:-${S%%-*}}
D=/verif/seeded/$S
PATCH=$D/patch.diff; [ -f $D/patch.rebased.diff ] && PATCH=$D/patch.rebased.diff
cd /repo && git diff --quiet || { echo "/repo not clean"; exit 3; }
git apply $PATCH || { echo "$S: patch does not apply"; exit 3; }
cd /verif && VERIF_NO_REPLAY=${NO_REPLAY:-1} VERIF_EVIDENCE_DIR=/verif/.work/seed-evidence/$S ./check $P $TIER > .work/logs/seed-$S-$P-$TIER.out 2>&1; RC=$?
git -C /repo checkout -- .
V=$(grep -c "^VIOLATION" .work/logs/seed-$S-$P-$TIER.out)
H=$(grep -E "^\s+\S+\s+VIOLATION" .work/logs/seed-$S-$P-$TIER.out | awk '{print $1}' | tr '\n' ' ')
I=$(grep -E "^INCONCLUSIVE" .work/logs/seed-$S-$P-$TIER.out | head -3 | cut -c1-120 | tr '\n' ';')
echo "$(date +%H:%M) seed=$S check=$P/$TIER rc=$RC violations=$V failing_harnesses=[$H] $I" | tee -a $D/detection.txt
