//! Native conformance of the tokio MODEL (/verif/models/tokio) against REAL tokio 1.49:
//! the same scripted operation sequences are run against both and every observable result is
//! recorded as text; any difference is reported and fails the run.  Only the synchronous part of
//! the API is scripted (try_send / try_recv / try_reserve / permits / capacity / close / drop /
//! oneshot / watch): that is what the registered harnesses observe the channels through.
//! Also keeps the native counterpart of the Kani 0.68 spurious counterexample (DESIGN.md 0.3).

macro_rules! scripts {
    ($tk:ident, $log:ident) => {{
        use $tk::sync::{mpsc, oneshot, watch};
        // ---- bounded mpsc: capacity accounting incl. permits, FIFO, full, close, drop
        {
            let (tx, mut rx) = mpsc::channel::<u32>(2);
            $log.push(format!("cap0 {}", tx.capacity()));
            $log.push(format!("send1 {:?}", tx.try_send(1).is_ok()));
            let p = tx.try_reserve();
            $log.push(format!("reserve {:?} cap {}", p.is_ok(), tx.capacity()));
            $log.push(format!("send_full {:?}", tx.try_send(9).map_err(|e| matches!(e, mpsc::error::TrySendError::Full(9)))));
            $log.push(format!("reserve_full {:?}", tx.try_reserve().map(|_| ()).map_err(|e| matches!(e, mpsc::error::TrySendError::Full(())))));
            p.unwrap().send(2);
            $log.push(format!("recv {:?} {:?} {:?}", rx.try_recv().ok(), rx.try_recv().ok(), rx.try_recv().map_err(|e| e == mpsc::error::TryRecvError::Empty)));
            // dropped permit gives the slot back
            let p2 = tx.try_reserve().unwrap();
            let p3 = tx.try_reserve().unwrap();
            $log.push(format!("cap_reserved {}", tx.capacity()));
            drop(p2);
            $log.push(format!("cap_after_drop {}", tx.capacity()));
            p3.send(3);
            // close: queued values still come out, sends fail
            rx.close();
            $log.push(format!("closed {} send {:?}", tx.is_closed(), tx.try_send(4).map_err(|e| matches!(e, mpsc::error::TrySendError::Closed(4)))));
            $log.push(format!("drain {:?} {:?}", rx.try_recv().ok(), rx.try_recv().map_err(|e| e == mpsc::error::TryRecvError::Disconnected)));
        }
        {
            // all senders dropped: queued values first, then Disconnected
            let (tx, mut rx) = mpsc::channel::<u32>(4);
            let tx2 = tx.clone();
            tx.try_send(1).unwrap();
            drop(tx);
            $log.push(format!("one_left {:?}", rx.try_recv().ok()));
            $log.push(format!("empty {:?}", rx.try_recv().map_err(|e| e == mpsc::error::TryRecvError::Empty)));
            tx2.try_send(2).unwrap();
            drop(tx2);
            $log.push(format!("after_drop {:?} {:?}", rx.try_recv().ok(), rx.try_recv().map_err(|e| e == mpsc::error::TryRecvError::Disconnected)));
        }
        {
            // receiver dropped: send fails with Closed and hands the value back
            let (tx, rx) = mpsc::channel::<u32>(1);
            drop(rx);
            $log.push(format!("rx_gone {:?} {}", tx.try_send(5).map_err(|e| matches!(e, mpsc::error::TrySendError::Closed(5))), tx.is_closed()));
        }
        // ---- unbounded mpsc
        {
            let (tx, mut rx) = mpsc::unbounded_channel::<u32>();
            for i in 0..5 { tx.send(i).unwrap(); }
            let mut got = Vec::new();
            while let Ok(v) = rx.try_recv() { got.push(v); }
            $log.push(format!("unbounded {:?}", got));
            drop(tx);
            $log.push(format!("unbounded_end {:?}", rx.try_recv().map_err(|e| e == mpsc::error::TryRecvError::Disconnected)));
            let (tx, rx) = mpsc::unbounded_channel::<u32>();
            drop(rx);
            $log.push(format!("unbounded_rx_gone {:?} {}", tx.send(1).is_err(), tx.is_closed()));
        }
        // ---- oneshot
        {
            let (tx, mut rx) = oneshot::channel::<u8>();
            $log.push(format!("os_empty {:?}", rx.try_recv().map_err(|e| e == oneshot::error::TryRecvError::Empty)));
            $log.push(format!("os_send {:?}", tx.send(7)));
            $log.push(format!("os_recv {:?}", rx.try_recv().ok()));
            let (tx, mut rx) = oneshot::channel::<u8>();
            drop(tx);
            $log.push(format!("os_closed {:?}", rx.try_recv().map_err(|e| e == oneshot::error::TryRecvError::Closed)));
            let (tx, rx) = oneshot::channel::<u8>();
            drop(rx);
            $log.push(format!("os_rx_gone {:?} ", tx.send(1)));
            let (tx, mut rx) = oneshot::channel::<u8>();
            rx.close();
            $log.push(format!("os_rx_closed {} {:?}", tx.is_closed(), tx.send(2)));
        }
        // ---- watch
        {
            let (tx, mut rx) = watch::channel(1u32);
            $log.push(format!("w0 {} {:?}", *rx.borrow(), rx.has_changed().ok()));
            tx.send(2).unwrap();
            $log.push(format!("w1 {:?} {}", rx.has_changed().ok(), *rx.borrow_and_update()));
            $log.push(format!("w2 {:?}", rx.has_changed().ok()));
            tx.send_replace(3);
            let rx2 = rx.clone();
            $log.push(format!("w3 {:?} {} clone {:?}", rx.has_changed().ok(), *rx.borrow(), rx2.has_changed().ok()));
            tx.send_modify(|v| *v += 1);
            $log.push(format!("w4 {}", *rx.borrow_and_update()));
            drop(tx);
            $log.push(format!("w_closed {:?} {}", rx.has_changed().is_err(), *rx.borrow()));
            let (tx, rx) = watch::channel(0u8);
            drop(rx);
            $log.push(format!("w_no_rx {:?} {}", tx.send(1).is_err(), tx.is_closed()));
        }
    }};
}

fn kani_niche_repro() {
    // native counterpart of the spurious Kani 0.68 counterexample (DESIGN.md 0.3)
    use mtokio::sync::mpsc;
    #[allow(dead_code)]
    enum M { Data { buf: Vec<u8>, first: bool, last: bool, c: u32 }, Ports { v: Vec<u16>, first: bool, last: bool, c: u32 }, Finished }
    type Tx = mpsc::UnboundedSender<M>;
    #[allow(dead_code)]
    enum PC { A { r: mtokio::sync::oneshot::Sender<u8> }, B { p: u32, t: Option<Tx>, x: bool, y: bool, z: bool, w: bool } }
    let (tx, mut rx) = mpsc::unbounded_channel();
    let mut ps = PC::B { p: 7, t: Some(tx), x: false, y: false, z: false, w: false };
    let ok = match &mut ps { PC::B { t: Some(tx), .. } => tx.send(M::Finished).is_ok(), _ => false };
    assert!(ok);
    match rx.try_recv() { Ok(M::Finished) => (), Ok(_) => panic!("native: wrong variant"), Err(_) => panic!("native: empty") }
    std::mem::forget(ps);
}

fn main() {
    let mut model: Vec<String> = Vec::new();
    let mut real: Vec<String> = Vec::new();
    scripts!(mtokio, model);
    scripts!(rtokio, real);
    let mut diffs = 0;
    for (i, (m, r)) in model.iter().zip(real.iter()).enumerate() {
        if m != r {
            println!("DIFF step {i}: model `{m}` real `{r}`");
            diffs += 1;
        }
    }
    if model.len() != real.len() {
        println!("DIFF: {} model observations vs {} real", model.len(), real.len());
        diffs += 1;
    }
    kani_niche_repro();
    println!("conformance: {} observations compared, {} differences", real.len(), diffs);
    if diffs > 0 {
        std::process::exit(1);
    }
}
