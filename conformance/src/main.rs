// niche repro native check
use mtokio::sync::mpsc;
enum M { Data { buf: Vec<u8>, first: bool, last: bool, c: u32 }, Ports { v: Vec<u16>, first: bool, last: bool, c: u32 }, Finished }
type Tx = mpsc::UnboundedSender<M>;
enum PC { A { r: mtokio::sync::oneshot::Sender<u8> }, B { p: u32, t: Option<Tx>, x: bool, y: bool, z: bool, w: bool } }
fn main() {
    let (tx, mut rx) = mpsc::unbounded_channel();
    let mut ps = PC::B { p: 7, t: Some(tx), x: false, y: false, z: false, w: false };
    let ok = match &mut ps { PC::B { t: Some(tx), .. } => tx.send(M::Finished).is_ok(), _ => false };
    assert!(ok);
    match rx.try_recv() { Ok(M::Finished) => println!("native: Finished OK"), Ok(_) => panic!("native: wrong variant"), Err(_) => panic!("native: empty") }
    std::mem::forget(ps);
}
