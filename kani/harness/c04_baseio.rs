//! C04 — byte-stream kernels underneath the typed channels (`rch/base/io.rs`): the size-limited
//! in-memory writer that decides "one buffer or streamed", and the reader that turns streamed chunks
//! back into a byte stream for the deserializer.

use super::util::*;
use crate::rch::base::verif_io::{ChannelBytesReader, LimitedBytesWriter};
use bytes::Bytes;
use std::io::{Read, Write};

static P1: [u8; 3] = [0x11, 0x12, 0x13];
static P2: [u8; 2] = [0x21, 0x22];

/// @prop C04
/// @tier quick
/// @fn rch::base::io::LimitedBytesWriter::{write,into_inner,overflow}
/// @bounds two writes of 3 and 2 bytes, then a third of 2 bytes; limit symbolic (full usize)
/// @outside the serializer that drives the writer (serde codecs)
/// a write is accepted iff the total stays within the limit (exactly the limit still fits); accepted bytes are stored in order; after the first refused write every later write is refused as well and no buffer is handed out (an item is never silently truncated)
#[kani::proof]
#[kani::unwind(7)]
#[kani::stub(alloc::fmt::format, empty_format)]
fn c04_limited_writer() {
    let limit: usize = kani::any();
    let mut w = LimitedBytesWriter::new(limit);
    let r1 = w.write(&P1);
    let r2 = w.write(&P2);
    let r3 = w.write(&P2);
    let ok1 = limit >= 3;
    let ok2 = ok1 && limit >= 5;
    let ok3 = ok2 && limit >= 7;
    assert!(r1.is_ok() == ok1 && r2.is_ok() == ok2 && r3.is_ok() == ok3);
    if let Ok(n) = &r1 {
        assert!(*n == 3);
    }
    assert!(w.overflow() == !ok3);
    let out = w.into_inner();
    match &out {
        Some(buf) => {
            assert!(ok3);
            assert!(buf.len() == 7);
            assert!(buf[0] == P1[0] && buf[2] == P1[2] && buf[3] == P2[0] && buf[4] == P2[1] && buf[5] == P2[0] && buf[6] == P2[1]);
            kani::cover!(limit == 7, "exact fit");
        }
        None => {
            assert!(!ok3);
            kani::cover!(ok2, "overflow after accepted writes yields no buffer");
        }
    }
    std::mem::forget((r1, r2, r3, out));
}

/// `script`: 0 = two chunks then end of stream, 1 = one chunk then the failure marker
fn channel_reader_case(script: u8, room: usize) {
    let (tx, rx) = tokio::sync::mpsc::channel(4);
    assert!(tx.try_send(Ok(Bytes::from_static(&P1))).is_ok());
    if script == 0 {
        assert!(tx.try_send(Ok(Bytes::from_static(&P2))).is_ok());
    } else {
        assert!(tx.try_send(Err(())).is_ok());
    }
    drop(tx);
    let mut r = ChannelBytesReader::new(rx);
    let mut got = [0u8; 8];
    let mut n = 0usize;
    let mut failed = false;
    let mut reads = 0;
    while reads < 8 {
        let end = if n + room < 8 { n + room } else { 8 };
        match r.read(&mut got[n..end]) {
            Ok(0) => break,
            Ok(k) => {
                assert!(k <= room);
                n += k;
            }
            Err(e) => {
                assert!(e.kind() == std::io::ErrorKind::BrokenPipe);
                std::mem::forget(e);
                failed = true;
                break;
            }
        }
        reads += 1;
    }
    if script == 0 {
        // the byte stream is exactly the chunks, in order, whatever the read size
        assert!(!failed && n == 5);
        assert!(got[0] == P1[0] && got[1] == P1[1] && got[2] == P1[2] && got[3] == P2[0] && got[4] == P2[1]);
        kani::cover!(true, "complete stream");
    } else {
        // what arrived before the failure is delivered, then the failure is reported - never a clean end
        assert!(failed && n == 3);
        assert!(got[0] == P1[0] && got[2] == P1[2]);
        kani::cover!(true, "failure surfaced");
    }
    std::mem::forget(r);
}

macro_rules! channel_reader_harness {
    ($($name:ident, $script:expr, $room:expr;)*) => {$(
        /// @prop C04
        /// @tier quick
        /// @covers any
        /// @fn rch::base::io::ChannelBytesReader::read
        /// @bounds streamed item of two chunks (3 + 2 bytes) followed by end of stream, or one chunk followed by the failure marker; read size per harness (1, 2, 8 bytes)
        /// @outside the tasks that feed the channel and the deserializer that reads from it (serde, spawn_blocking)
        /// the reader yields exactly the bytes of the chunks in order for any read size; the end of the stream is a clean end only if no failure marker was sent, otherwise the bytes received so far are followed by an error
        #[kani::proof]
        #[kani::unwind(10)]
        #[kani::stub(alloc::fmt::format, empty_format)]
        fn $name() {
            channel_reader_case($script, $room);
        }
    )*};
}

channel_reader_harness! {
    c04_channel_reader_complete_r1, 0, 1;
    c04_channel_reader_complete_r2, 0, 2;
    c04_channel_reader_complete_r8, 0, 8;
    c04_channel_reader_failed_r2, 1, 2;
    c04_channel_reader_failed_r8, 1, 8;
}
