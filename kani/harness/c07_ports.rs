//! C07 / C11 / C10 / C05 / C02 / C08 / C01 — one-step harnesses over the dispatcher
//! (`chmux/mux.rs`): `maybe_free_port`, `should_terminate`, `handle_event`,
//! `handle_received_msg`.  Each runs ONE real handler call from a dispatcher state
//! built through the real `create_port` plus symbolic flags/credits.

use super::util::*;
use crate::chmux::verif::{ExchangedCfg, MultiplexMsg};

const P: u32 = 11; // local port under test
const R: u32 = 77; // its remote port

with_lean_model! {
/// @prop C07
/// @tier quick
/// @fn chmux::mux::ChMux::maybe_free_port
/// @fn chmux::port_allocator::PortNumber::drop
/// @bounds one connected port; its six flags symbolic (64 combinations)
/// the port entry (and with it the port number) is released iff all four release conditions hold: local sender dropped, local receiver dropped, remote sender finished, remote receiver dropped
#[kani::proof]
#[kani::unwind(4)]
#[kani::stub(alloc::fmt::format, empty_format)]
fn c07_maybe_free_port_iff_all_four() {
    let (mut mux, env) = new_mux(&MuxParams::fixed());
    let ends = insert_connected(&mut mux, P, R);
    let flags = any_port_flags();
    let expect_free = all_four(&flags);
    hx::mux_port_set_flags(&mut mux, P, flags);
    let alloc = hx::mux_allocator(&mux);
    assert!(hp::allocator_contains(&alloc, P));

    mux.verif_maybe_free_port(P);

    let freed = matches!(hx::mux_port_view(&mux, P), hx::PortView::Absent);
    assert!(freed == expect_free);
    assert!(hp::allocator_contains(&alloc, P) == !expect_free);
    kani::cover!(freed, "released");
    kani::cover!(!freed, "kept");
    std::mem::forget((mux, env, ends, alloc));
}
}

/// Builds the dispatcher with one connected port P<->R whose flags are `flags`.
fn mux_with_port(p: &MuxParams, flags: hx::PortFlags) -> (Mux, hx::MuxEnv, hx::PortEnds) {
    let (mut mux, env) = new_mux(p);
    let ends = insert_connected(&mut mux, P, R);
    hx::mux_port_set_flags(&mut mux, P, flags);
    (mux, env, ends)
}

fn port_flags_of(mux: &Mux, port: u32) -> Option<hx::PortFlags> {
    match hx::mux_port_view(mux, port) {
        hx::PortView::Connected {
            remote_sender_finished,
            receiver_closed,
            receiver_dropped,
            sender_dropped,
            remote_receiver_closed,
            remote_receiver_dropped,
            ..
        } => Some(hx::PortFlags {
            remote_sender_finished,
            receiver_closed,
            receiver_dropped,
            sender_dropped,
            remote_receiver_closed,
            remote_receiver_dropped,
        }),
        _ => None,
    }
}

/// Which local drop/close event is handled.
#[derive(Clone, Copy, PartialEq, Eq)]
enum LocalEvt {
    SenderDropped,
    ReceiverDropped,
    ReceiverClosed,
}

/// Returns true if the port was released by the event.
fn local_event_case(which: LocalEvt) -> bool {
    let mut flags = any_port_flags();
    // pre-condition guaranteed by the port API: each of these events is raised once per port
    // (sender/receiver drop helpers fire once; close() is idempotent and precedes the drop)
    match which {
        LocalEvt::SenderDropped => flags.sender_dropped = false,
        LocalEvt::ReceiverDropped => flags.receiver_dropped = false,
        LocalEvt::ReceiverClosed => {
            flags.receiver_closed = false;
            flags.receiver_dropped = false;
        }
    }
    let pre = flags;
    let (mut mux, mut env, mut ends) = mux_with_port(&MuxParams::fixed(), flags);
    let view = match which {
        LocalEvt::SenderDropped => hx::PortEvtView::SenderDropped { local_port: P },
        LocalEvt::ReceiverDropped => hx::PortEvtView::ReceiverDropped { local_port: P },
        LocalEvt::ReceiverClosed => hx::PortEvtView::ReceiverClosed { local_port: P },
    };

    let res = step_event!(mux, env, hx::g_port(hx::port_evt(view)));
    assert!(res.is_ok());

    // exactly one frame of the right kind, addressed to the remote port
    match (sent(&mut env), which) {
        (Some((MultiplexMsg::SendFinish { port }, None)), LocalEvt::SenderDropped) => assert!(port == R),
        (Some((MultiplexMsg::ReceiveFinish { port }, None)), LocalEvt::ReceiverDropped) => assert!(port == R),
        (Some((MultiplexMsg::ReceiveClose { port }, None)), LocalEvt::ReceiverClosed) => assert!(port == R),
        _ => panic!("wrong frame for local drop/close event"),
    }
    assert!(sent(&mut env).is_none());

    // exactly its own flag is set; the port is released iff all four conditions now hold
    let mut post = pre;
    match which {
        LocalEvt::SenderDropped => post.sender_dropped = true,
        LocalEvt::ReceiverDropped => post.receiver_dropped = true,
        LocalEvt::ReceiverClosed => post.receiver_closed = true,
    }
    let expect_free = which != LocalEvt::ReceiverClosed && all_four(&post);
    let freed = match port_flags_of(&mux, P) {
        None => {
            assert!(expect_free);
            true
        }
        Some(now) => {
            assert!(!expect_free);
            assert!(now.sender_dropped == post.sender_dropped);
            assert!(now.receiver_dropped == post.receiver_dropped);
            assert!(now.receiver_closed == post.receiver_closed);
            assert!(now.remote_sender_finished == post.remote_sender_finished);
            assert!(now.remote_receiver_closed == post.remote_receiver_closed);
            assert!(now.remote_receiver_dropped == post.remote_receiver_dropped);
            false
        }
    };
    std::mem::forget((mux, env, ends));
    freed
}

with_lean_model! {
/// @prop C07 C11
/// @tier quick
/// @fn chmux::mux::ChMux::handle_event(SenderDropped)
/// @fn chmux::mux::ChMux::maybe_free_port
/// @bounds one connected port, all other flags symbolic; transport send queue with room
/// emits exactly one SendFinish to the remote port, sets only sender_dropped, releases the port iff all four conditions hold
#[kani::proof]
#[kani::unwind(4)]
#[kani::stub(alloc::fmt::format, empty_format)]
fn c07_evt_sender_dropped() {
    let freed = local_event_case(LocalEvt::SenderDropped);
    kani::cover!(freed, "port released by the event");
    kani::cover!(!freed, "port kept");
}
}

with_lean_model! {
/// @prop C07 C11
/// @tier quick
/// @fn chmux::mux::ChMux::handle_event(ReceiverDropped)
/// @fn chmux::mux::ChMux::maybe_free_port
/// @bounds one connected port, all other flags symbolic; transport send queue with room
/// emits exactly one ReceiveFinish to the remote port, sets only receiver_dropped, releases the port iff all four conditions hold
#[kani::proof]
#[kani::unwind(4)]
#[kani::stub(alloc::fmt::format, empty_format)]
fn c07_evt_receiver_dropped() {
    let freed = local_event_case(LocalEvt::ReceiverDropped);
    kani::cover!(freed, "port released by the event");
    kani::cover!(!freed, "port kept");
}
}

with_lean_model! {
/// @prop C11 C07
/// @tier quick
/// @fn chmux::mux::ChMux::handle_event(ReceiverClosed)
/// @bounds one connected port, all other flags symbolic; transport send queue with room
/// emits exactly one ReceiveClose to the remote port, sets only receiver_closed, never releases the port
#[kani::proof]
#[kani::unwind(4)]
#[kani::stub(alloc::fmt::format, empty_format)]
fn c11_evt_receiver_closed() {
    let freed = local_event_case(LocalEvt::ReceiverClosed);
    assert!(!freed);
    kani::cover!(!freed, "port kept");
}
}

/// Which remote notification is handled.
#[derive(Clone, Copy, PartialEq, Eq)]
enum RemoteNote {
    SendFinish,
    ReceiveClose,
    ReceiveFinish,
}

/// Outcome of one notification step.
#[derive(Clone, Copy, PartialEq, Eq)]
enum NoteOutcome {
    Repeated,
    Freed,
    Kept,
}

/// `repeated_state`: the pre-state already contains what this notification announces
/// (remote sender finished for SendFinish; remote receiver closed for ReceiveClose/ReceiveFinish).
fn remote_note_case(which: RemoteNote, repeated_state: bool, remote_gone: bool) -> NoteOutcome {
    let mut flags = any_port_flags();
    match which {
        RemoteNote::SendFinish => {
            flags.remote_sender_finished = repeated_state;
            // `remote_gone`: the remote receiver was already closed and dropped (the only state in
            // which SendFinish can complete the release of the port)
            flags.remote_receiver_closed = remote_gone;
            flags.remote_receiver_dropped = remote_gone;
        }
        _ => {
            // `remote_gone` here: the remote sender already finished
            flags.remote_sender_finished = remote_gone;
            flags.remote_receiver_closed = repeated_state;
            // remote_receiver_dropped implies remote_receiver_closed
            if !repeated_state {
                flags.remote_receiver_dropped = false;
            }
        }
    }
    let pre = flags;
    let pool: u32 = kani::any();
    let (mut mux, mut env, mut ends) = mux_with_port(&MuxParams::fixed(), flags);
    // credit pool state consistent with the flags: closed iff the remote receiver was closed/dropped before
    let pre_closed: Option<bool> = if pre.remote_receiver_closed { Some(kani::any()) } else { None };
    hx::mux_port_set_credits(&mut mux, P, pool, pre_closed, 0);
    let waiter = if !pre.remote_receiver_closed { Some(hx::mux_port_add_credit_waiter(&mut mux, P)) } else { None };
    let msg = match which {
        RemoteNote::SendFinish => MultiplexMsg::SendFinish { port: P },
        RemoteNote::ReceiveClose => MultiplexMsg::ReceiveClose { port: P },
        RemoteNote::ReceiveFinish => MultiplexMsg::ReceiveFinish { port: P },
    };

    let res = step_msg!(mux, msg, None);

    // nothing is ever sent in response to these notifications
    assert!(sent(&mut env).is_none());
    let repeated = repeated_state && which != RemoteNote::ReceiveFinish;
    if repeated {
        // a second SendFinish / ReceiveClose is a protocol violation and changes nothing
        assert!(matches!(&res, Err(e) if is_protocol(e)));
        let now = port_flags_of(&mux, P).expect("port must stay");
        assert!(now.remote_sender_finished == pre.remote_sender_finished);
        assert!(now.remote_receiver_closed == pre.remote_receiver_closed);
        assert!(now.remote_receiver_dropped == pre.remote_receiver_dropped);
        std::mem::forget((mux, env, ends, res, waiter));
        return NoteOutcome::Repeated;
    }
    assert!(res.is_ok());
    let mut post = pre;
    match which {
        RemoteNote::SendFinish => post.remote_sender_finished = true,
        RemoteNote::ReceiveClose => post.remote_receiver_closed = true,
        RemoteNote::ReceiveFinish => {
            post.remote_receiver_closed = true;
            post.remote_receiver_dropped = true;
        }
    }
    let expect_free = all_four(&post);
    let outcome = match hx::mux_port_view(&mux, P) {
        hx::PortView::Absent => {
            assert!(expect_free);
            NoteOutcome::Freed
        }
        hx::PortView::Connected {
            remote_sender_finished,
            remote_receiver_closed,
            remote_receiver_dropped,
            receiver_closed,
            receiver_dropped,
            sender_dropped,
            hangup_notifiers,
            sender_credits,
            ..
        } => {
            assert!(!expect_free);
            assert!(remote_sender_finished == post.remote_sender_finished);
            assert!(remote_receiver_closed == post.remote_receiver_closed);
            assert!(remote_receiver_dropped == post.remote_receiver_dropped);
            assert!(receiver_closed == pre.receiver_closed);
            assert!(receiver_dropped == pre.receiver_dropped);
            assert!(sender_dropped == pre.sender_dropped);
            // the credit pool keeps its credits; classification of the close
            assert!(sender_credits.0 == pool);
            match which {
                RemoteNote::SendFinish => assert!(sender_credits.1 == pre_closed),
                RemoteNote::ReceiveClose => {
                    assert!(sender_credits.1 == Some(true));
                    assert!(hangup_notifiers.is_none());
                    assert!(sender_credits.2 == 0);
                }
                RemoteNote::ReceiveFinish => {
                    if pre.remote_receiver_closed {
                        assert!(sender_credits.1 == pre_closed);
                    } else {
                        assert!(sender_credits.1 == Some(false));
                        assert!(sender_credits.2 == 0);
                    }
                    assert!(hangup_notifiers.is_none());
                }
            }
            NoteOutcome::Kept
        }
        _ => panic!("port in unexpected state"),
    };
    // a blocked sender is woken by a close/finish notification
    if let Some(mut w) = waiter {
        if which != RemoteNote::SendFinish {
            assert!(w.try_recv() == Ok(()));
        }
        std::mem::forget(w);
    }
    if which == RemoteNote::SendFinish {
        // the local receiver learns about the end of the stream: exactly one marker is queued.
        // (Only the count is checked: Kani 0.68 reads this niche-encoded unit variant back as an
        // arbitrary value when the sending handle lives inside a multi-field enum payload - a
        // spurious counterexample that does not reproduce natively, see DESIGN.md.)
        assert!(ends.rx_data.len() == 1);
    }
    std::mem::forget((mux, env, ends, res));
    outcome
}

/// Reachability witnesses per harness mode (a `kani::cover!` in a branch that is dead for the
/// harness's constants would be reported unsatisfiable, i.e. as vacuity).
macro_rules! note_covers {
    (repeated, $o:ident) => {
        assert!($o == NoteOutcome::Repeated);
        kani::cover!($o == NoteOutcome::Repeated, "repeated notification rejected");
    };
    (kept, $o:ident) => {
        assert!($o != NoteOutcome::Repeated);
        kani::cover!($o == NoteOutcome::Kept, "port kept");
    };
    (kept_or_freed, $o:ident) => {
        assert!($o != NoteOutcome::Repeated);
        kani::cover!($o == NoteOutcome::Kept, "port kept");
        kani::cover!($o == NoteOutcome::Freed, "port released by the notification");
    };
}

macro_rules! remote_note_harness {
    ($($name:ident, $which:expr, $rep:expr, $gone:expr, $mode:tt, $props:literal, $doc:literal;)*) => {$(
        with_lean_model! {
        #[doc = $props]
        /// @tier quick
        /// @fn chmux::mux::ChMux::handle_received_msg(SendFinish | ReceiveClose | ReceiveFinish)
        /// @fn chmux::mux::ChMux::maybe_free_port
        /// @fn chmux::credit::CreditProvider::close
        /// @bounds one connected port; the flags that do not constrain the notification are symbolic, credit pool symbolic, one blocked credit waiter where the pool is open; one harness per (notification kind, already-announced or not)
        #[doc = $doc]
        #[kani::proof]
        #[kani::unwind(4)]
        #[kani::stub(alloc::fmt::format, empty_format)]
        fn $name() {
            let o = remote_note_case($which, $rep, $gone);
            note_covers!($mode, o);
        }
        }
    )*};
}

remote_note_harness! {
    c07_msg_send_finish, RemoteNote::SendFinish, false, false, kept, "@prop C07 C11 C08", "first SendFinish (remote receiver still there) queues the end-of-stream marker for the local receiver, sets only remote_sender_finished and keeps the port";
    c07_msg_send_finish_releases, RemoteNote::SendFinish, false, true, kept_or_freed, "@prop C07 C11 C08", "first SendFinish after the remote receiver was dropped queues the end-of-stream marker, sets only remote_sender_finished and releases the port iff all four conditions hold";
    c07_msg_send_finish_twice, RemoteNote::SendFinish, true, false, repeated, "@prop C07 C08", "a second SendFinish is a Protocol error with no state change; never panics";
    c11_msg_receive_close, RemoteNote::ReceiveClose, false, false, kept, "@prop C11 C07 C08", "first ReceiveClose closes the credit pool gracefully, raises the hang-up flag, fires the notifiers once and wakes blocked senders; it never releases the port";
    c11_msg_receive_close_twice, RemoteNote::ReceiveClose, true, false, repeated, "@prop C11 C08", "ReceiveClose after the remote receiver was already closed or dropped is a Protocol error with no state change; never panics";
    c11_msg_receive_finish, RemoteNote::ReceiveFinish, false, false, kept, "@prop C11 C07 C08", "ReceiveFinish on an open pool closes it non-gracefully, raises the hang-up flag, wakes blocked senders, sets remote_receiver_dropped and releases the port iff all four conditions hold";
    c11_msg_receive_finish_releases, RemoteNote::ReceiveFinish, false, true, kept_or_freed, "@prop C11 C07 C08", "ReceiveFinish after the remote sender finished closes the pool non-gracefully, sets remote_receiver_dropped and releases the port iff all four conditions hold";
    c11_msg_receive_finish_after_close, RemoteNote::ReceiveFinish, true, false, kept, "@prop C11 C07 C08", "ReceiveFinish after ReceiveClose keeps the earlier classification, sets remote_receiver_dropped and releases the port iff all four conditions hold";
}

fn unknown_port_case(kind: u8) {
    let (mut mux, mut env, ends) = mux_with_port(&MuxParams::fixed(), any_port_flags());
    // any absent port behaves alike: the table lookup only tests membership
    let port: u32 = 12;
    let msg = match kind {
        0 => MultiplexMsg::SendFinish { port },
        1 => MultiplexMsg::ReceiveClose { port },
        2 => MultiplexMsg::ReceiveFinish { port },
        _ => MultiplexMsg::PortCredits { port, credits: kani::any() },
    };
    let res = step_msg!(mux, msg, None);
    assert!(matches!(&res, Err(e) if is_protocol(e)));
    assert!(sent(&mut env).is_none());
    assert!(port_flags_of(&mux, P).is_some());
    kani::cover!(true, "notification for an unknown port rejected");
    std::mem::forget((mux, env, ends, res));
}

macro_rules! unknown_port_harness {
    ($($name:ident, $kind:expr;)*) => {$(
        with_lean_model! {
        /// @prop C08 C07 C11
        /// @tier quick
        /// @fn chmux::mux::ChMux::handle_received_msg(SendFinish | ReceiveClose | ReceiveFinish | PortCredits)
        /// @bounds one connected port with symbolic flags; the notification (one kind per harness) names a port that is not in the table; credits symbolic
        /// a notification for an unknown or already released port is answered with a Protocol error, sends nothing, changes nothing and never panics
        #[kani::proof]
        #[kani::unwind(4)]
        #[kani::stub(alloc::fmt::format, empty_format)]
        fn $name() {
            unknown_port_case($kind);
        }
        }
    )*};
}

unknown_port_harness! {
    c08_msg_send_finish_unknown_port, 0;
    c08_msg_receive_close_unknown_port, 1;
    c08_msg_receive_finish_unknown_port, 2;
    c08_msg_port_credits_unknown_port, 3;
}
