//! C07 / C11 / C10 / C05 / C02 / C08 / C01 — one-step harnesses over the dispatcher
//! (`chmux/mux.rs`): `maybe_free_port`, `should_terminate`, `handle_event`,
//! `handle_received_msg`.  Each runs ONE real handler call from a dispatcher state
//! built through the real `create_port` plus symbolic flags/credits.

use super::util::*;
use crate::chmux::verif::{ExchangedCfg, MultiplexMsg};

const P: u32 = 11; // local port under test
const R: u32 = 77; // its remote port

with_map_model! {
/// @prop C07
/// @tier quick
/// @fn chmux::mux::ChMux::maybe_free_port
/// @fn chmux::port_allocator::PortNumber::drop
/// @bounds one connected port; its six flags symbolic (64 combinations)
/// the port entry (and with it the port number) is released iff all four release conditions hold: local sender dropped, local receiver dropped, remote sender finished, remote receiver dropped
#[kani::proof]
#[kani::unwind(4)]
#[kani::stub(alloc::fmt::format, empty_format)]
fn c07_maybe_free_port_iff_all_four() {
    let (mut mux, env) = new_mux(&MuxParams::fixed());
    let ends = insert_connected(&mut mux, P, R);
    let flags = any_port_flags();
    let expect_free = all_four(&flags);
    hx::mux_port_set_flags(&mut mux, P, flags);
    let alloc = hx::mux_allocator(&mux);
    assert!(hp::allocator_contains(&alloc, P));

    mux.verif_maybe_free_port(P);

    let freed = matches!(hx::mux_port_view(&mux, P), hx::PortView::Absent);
    assert!(freed == expect_free);
    assert!(hp::allocator_contains(&alloc, P) == !expect_free);
    kani::cover!(freed, "released");
    kani::cover!(!freed, "kept");
    std::mem::forget((mux, env, ends, alloc));
}
}

/// Builds the dispatcher with one connected port P<->R whose flags are `flags`.
fn mux_with_port(p: &MuxParams, flags: hx::PortFlags) -> (Mux, hx::MuxEnv, hx::PortEnds) {
    let (mut mux, env) = new_mux(p);
    let ends = insert_connected(&mut mux, P, R);
    hx::mux_port_set_flags(&mut mux, P, flags);
    (mux, env, ends)
}

fn port_flags_of(mux: &Mux, port: u32) -> Option<hx::PortFlags> {
    match hx::mux_port_view(mux, port) {
        hx::PortView::Connected {
            remote_sender_finished,
            receiver_closed,
            receiver_dropped,
            sender_dropped,
            remote_receiver_closed,
            remote_receiver_dropped,
            ..
        } => Some(hx::PortFlags {
            remote_sender_finished,
            receiver_closed,
            receiver_dropped,
            sender_dropped,
            remote_receiver_closed,
            remote_receiver_dropped,
        }),
        _ => None,
    }
}

/// Which local drop/close event is handled.
#[derive(Clone, Copy, PartialEq, Eq)]
enum LocalEvt {
    SenderDropped,
    ReceiverDropped,
    ReceiverClosed,
}

fn local_event_case(which: LocalEvt) {
    local_event_case_with(which, any_port_flags());
}

fn local_event_case_with(which: LocalEvt, flags: hx::PortFlags) {
    let mut flags = flags;
    // pre-condition guaranteed by the port API: each of these events is raised once per port
    // (sender/receiver drop helpers fire once; close() is idempotent and precedes the drop)
    match which {
        LocalEvt::SenderDropped => flags.sender_dropped = false,
        LocalEvt::ReceiverDropped => flags.receiver_dropped = false,
        LocalEvt::ReceiverClosed => {
            flags.receiver_closed = false;
            flags.receiver_dropped = false;
        }
    }
    let pre = flags;
    let (mut mux, mut env, mut ends) = mux_with_port(&MuxParams::fixed(), flags);
    let view = match which {
        LocalEvt::SenderDropped => hx::PortEvtView::SenderDropped { local_port: P },
        LocalEvt::ReceiverDropped => hx::PortEvtView::ReceiverDropped { local_port: P },
        LocalEvt::ReceiverClosed => hx::PortEvtView::ReceiverClosed { local_port: P },
    };

    let res = step_event!(mux, env, hx::g_port(hx::port_evt(view)));
    assert!(res.is_ok());

    // exactly one frame of the right kind, addressed to the remote port
    match (sent(&mut env), which) {
        (Some((MultiplexMsg::SendFinish { port }, None)), LocalEvt::SenderDropped) => assert!(port == R),
        (Some((MultiplexMsg::ReceiveFinish { port }, None)), LocalEvt::ReceiverDropped) => assert!(port == R),
        (Some((MultiplexMsg::ReceiveClose { port }, None)), LocalEvt::ReceiverClosed) => assert!(port == R),
        _ => panic!("wrong frame for local drop/close event"),
    }
    assert!(sent(&mut env).is_none());

    // exactly its own flag is set; the port is released iff all four conditions now hold
    let mut post = pre;
    match which {
        LocalEvt::SenderDropped => post.sender_dropped = true,
        LocalEvt::ReceiverDropped => post.receiver_dropped = true,
        LocalEvt::ReceiverClosed => post.receiver_closed = true,
    }
    let expect_free = which != LocalEvt::ReceiverClosed && all_four(&post);
    match port_flags_of(&mux, P) {
        None => {
            assert!(expect_free);
            kani::cover!(true, "port released by the event");
        }
        Some(now) => {
            assert!(!expect_free);
            assert!(now.sender_dropped == post.sender_dropped);
            assert!(now.receiver_dropped == post.receiver_dropped);
            assert!(now.receiver_closed == post.receiver_closed);
            assert!(now.remote_sender_finished == post.remote_sender_finished);
            assert!(now.remote_receiver_closed == post.remote_receiver_closed);
            assert!(now.remote_receiver_dropped == post.remote_receiver_dropped);
            kani::cover!(true, "port kept");
        }
    }
    std::mem::forget((mux, env, ends));
}

with_map_model! {
/// @prop C07 C11
/// @tier quick
/// @fn chmux::mux::ChMux::handle_event(SenderDropped)
/// @fn chmux::mux::ChMux::maybe_free_port
/// @bounds one connected port, all other flags symbolic; transport send queue with room
/// emits exactly one SendFinish to the remote port, sets only sender_dropped, releases the port iff all four conditions hold
#[kani::proof]
#[kani::unwind(4)]
#[kani::stub(alloc::fmt::format, empty_format)]
fn c07_evt_sender_dropped() {
    local_event_case(LocalEvt::SenderDropped);
}
}

with_map_model! {
/// @prop C07 C11
/// @tier quick
/// @fn chmux::mux::ChMux::handle_event(ReceiverDropped)
/// @fn chmux::mux::ChMux::maybe_free_port
/// @bounds one connected port, all other flags symbolic; transport send queue with room
/// emits exactly one ReceiveFinish to the remote port, sets only receiver_dropped, releases the port iff all four conditions hold
#[kani::proof]
#[kani::unwind(4)]
#[kani::stub(alloc::fmt::format, empty_format)]
fn c07_evt_receiver_dropped() {
    local_event_case(LocalEvt::ReceiverDropped);
}
}

with_map_model! {
/// @prop C11 C07
/// @tier quick
/// @fn chmux::mux::ChMux::handle_event(ReceiverClosed)
/// @bounds one connected port, all other flags symbolic; transport send queue with room
/// emits exactly one ReceiveClose to the remote port, sets only receiver_closed, never releases the port
#[kani::proof]
#[kani::unwind(4)]
#[kani::stub(alloc::fmt::format, empty_format)]
fn c11_evt_receiver_closed() {
    local_event_case(LocalEvt::ReceiverClosed);
}
}

/// Which remote notification is handled.
#[derive(Clone, Copy, PartialEq, Eq)]
enum RemoteNote {
    SendFinish,
    ReceiveClose,
    ReceiveFinish,
}

fn remote_note_case(which: RemoteNote, known_port: bool) {
    let flags = any_port_flags();
    let pre = flags;
    let pool: u32 = kani::any();
    let (mut mux, mut env, mut ends) = mux_with_port(&MuxParams::fixed(), flags);
    // credit pool state consistent with the flags: closed iff the remote receiver was closed/dropped before
    let pre_closed: Option<bool> = if pre.remote_receiver_closed { Some(kani::any()) } else { None };
    hx::mux_port_set_credits(&mut mux, P, pool, pre_closed, 0);
    let waiter = if !pre.remote_receiver_closed { Some(hx::mux_port_add_credit_waiter(&mut mux, P)) } else { None };
    let target: u32 = if known_port { P } else { 12 }; // 12 is not in the port table
    let msg = match which {
        RemoteNote::SendFinish => MultiplexMsg::SendFinish { port: target },
        RemoteNote::ReceiveClose => MultiplexMsg::ReceiveClose { port: target },
        RemoteNote::ReceiveFinish => MultiplexMsg::ReceiveFinish { port: target },
    };

    let res = step_msg!(mux, msg, None);

    // nothing is ever sent in response to these notifications
    assert!(sent(&mut env).is_none());
    if target != P {
        assert!(matches!(&res, Err(e) if is_protocol(e)));
        kani::cover!(true, "unknown port rejected");
        std::mem::forget((mux, env, ends, res, waiter));
        return;
    }
    let repeated = match which {
        RemoteNote::SendFinish => pre.remote_sender_finished,
        RemoteNote::ReceiveClose => pre.remote_receiver_closed,
        RemoteNote::ReceiveFinish => false,
    };
    if repeated {
        // a second SendFinish / ReceiveClose is a protocol violation and changes nothing
        assert!(matches!(&res, Err(e) if is_protocol(e)));
        let now = port_flags_of(&mux, P).expect("port must stay");
        assert!(now.remote_sender_finished == pre.remote_sender_finished);
        assert!(now.remote_receiver_closed == pre.remote_receiver_closed);
        assert!(now.remote_receiver_dropped == pre.remote_receiver_dropped);
        kani::cover!(true, "repeated notification rejected");
        std::mem::forget((mux, env, ends, res, waiter));
        return;
    }
    assert!(res.is_ok());
    let mut post = pre;
    match which {
        RemoteNote::SendFinish => post.remote_sender_finished = true,
        RemoteNote::ReceiveClose => post.remote_receiver_closed = true,
        RemoteNote::ReceiveFinish => {
            post.remote_receiver_closed = true;
            post.remote_receiver_dropped = true;
        }
    }
    let expect_free = all_four(&post);
    match hx::mux_port_view(&mux, P) {
        hx::PortView::Absent => {
            assert!(expect_free);
            kani::cover!(true, "port released by the notification");
        }
        hx::PortView::Connected {
            remote_sender_finished,
            remote_receiver_closed,
            remote_receiver_dropped,
            receiver_closed,
            receiver_dropped,
            sender_dropped,
            hangup_notifiers,
            sender_credits,
            ..
        } => {
            assert!(!expect_free);
            assert!(remote_sender_finished == post.remote_sender_finished);
            assert!(remote_receiver_closed == post.remote_receiver_closed);
            assert!(remote_receiver_dropped == post.remote_receiver_dropped);
            assert!(receiver_closed == pre.receiver_closed);
            assert!(receiver_dropped == pre.receiver_dropped);
            assert!(sender_dropped == pre.sender_dropped);
            // credit pool keeps its credits; classification of the close
            assert!(sender_credits.0 == pool);
            match which {
                RemoteNote::SendFinish => assert!(sender_credits.1 == pre_closed),
                RemoteNote::ReceiveClose => {
                    assert!(sender_credits.1 == Some(true));
                    assert!(hangup_notifiers.is_none());
                    assert!(sender_credits.2 == 0);
                }
                RemoteNote::ReceiveFinish => {
                    if pre.remote_receiver_closed {
                        assert!(sender_credits.1 == pre_closed);
                    } else {
                        assert!(sender_credits.1 == Some(false));
                        assert!(sender_credits.2 == 0);
                    }
                    assert!(hangup_notifiers.is_none());
                }
            }
            kani::cover!(true, "port kept");
        }
        _ => panic!("port in unexpected state"),
    }
    // a blocked sender is woken by a close/finish notification
    if let Some(mut w) = waiter {
        if which != RemoteNote::SendFinish {
            assert!(w.try_recv() == Ok(()));
        }
        std::mem::forget(w);
    }
    if which == RemoteNote::SendFinish {
        // the local receiver learns about the end of the stream, after everything queued before
        match rx_pop_raw(&mut ends.rx_data) {
            RxItem::Finished => (),
            _ => panic!("Finished marker expected in the receive queue"),
        }
    }
    std::mem::forget((mux, env, ends, res));
}

with_map_model! {
/// @prop C07 C11 C08
/// @tier quick
/// @fn chmux::mux::ChMux::handle_received_msg(SendFinish)
/// @fn chmux::mux::ChMux::maybe_free_port
/// @bounds one connected port with symbolic flags and pool; message addressed to it (unknown ports: c08_msg_note_unknown_port)
/// first SendFinish queues the Finished marker for the local receiver, sets only remote_sender_finished and releases the port iff all four conditions hold; a repeat or an unknown port is a Protocol error with no state change; never panics
#[kani::proof]
#[kani::unwind(4)]
#[kani::stub(alloc::fmt::format, empty_format)]
fn c07_msg_send_finish() {
    remote_note_case(RemoteNote::SendFinish, true);
}
}

with_map_model! {
/// @prop C11 C07 C08
/// @tier quick
/// @fn chmux::mux::ChMux::handle_received_msg(ReceiveClose)
/// @fn chmux::credit::CreditProvider::close
/// @bounds one connected port with symbolic flags and pool, one blocked credit waiter; message addressed to it (unknown ports: c08_msg_note_unknown_port)
/// first ReceiveClose closes the credit pool gracefully, raises the hang-up flag, fires the notifiers once and wakes blocked senders; a repeat or an unknown port is a Protocol error; never panics
#[kani::proof]
#[kani::unwind(4)]
#[kani::stub(alloc::fmt::format, empty_format)]
fn c11_msg_receive_close() {
    remote_note_case(RemoteNote::ReceiveClose, true);
}
}

with_map_model! {
/// @prop C11 C07 C08
/// @tier quick
/// @fn chmux::mux::ChMux::handle_received_msg(ReceiveFinish)
/// @fn chmux::credit::CreditProvider::close
/// @bounds one connected port with symbolic flags and pool, one blocked credit waiter; message addressed to it (unknown ports: c08_msg_note_unknown_port)
/// ReceiveFinish closes the credit pool non-gracefully (unless already closed), raises the hang-up flag, wakes blocked senders, sets remote_receiver_dropped and releases the port iff all four conditions hold; unknown port is a Protocol error; never panics
#[kani::proof]
#[kani::unwind(4)]
#[kani::stub(alloc::fmt::format, empty_format)]
fn c11_msg_receive_finish() {
    remote_note_case(RemoteNote::ReceiveFinish, true);
}
}

with_map_model! {
/// @prop C08 C07 C11
/// @tier quick
/// @fn chmux::mux::ChMux::handle_received_msg(SendFinish | ReceiveClose | ReceiveFinish | PortCredits)
/// @bounds one connected port with symbolic flags; the notification (kind symbolic) names a port that is not in the table; port number and credits symbolic
/// a notification for an unknown or already released port is answered with a Protocol error, sends nothing, changes nothing and never panics
#[kani::proof]
#[kani::unwind(4)]
#[kani::stub(alloc::fmt::format, empty_format)]
fn c08_msg_note_unknown_port() {
    let (mut mux, mut env, ends) = mux_with_port(&MuxParams::fixed(), any_port_flags());
    let port: u32 = kani::any();
    kani::assume(port != P);
    let kind: u8 = kani::any();
    kani::assume(kind < 4);
    let msg = match kind {
        0 => MultiplexMsg::SendFinish { port },
        1 => MultiplexMsg::ReceiveClose { port },
        2 => MultiplexMsg::ReceiveFinish { port },
        _ => MultiplexMsg::PortCredits { port, credits: kani::any() },
    };
    let res = step_msg!(mux, msg, None);
    assert!(matches!(&res, Err(e) if is_protocol(e)));
    assert!(sent(&mut env).is_none());
    assert!(port_flags_of(&mux, P).is_some());
    kani::cover!(kind == 3, "credits for an unknown port rejected");
    std::mem::forget((mux, env, ends, res));
}
}
