use super::util::*;
fn spin(n: usize) -> u32 { let mut i = 0; let mut acc = 0u32; while i < n { acc += 1; i += 1; } acc }
enum Inner { A { x: u32 }, B { y: u32, z: bool, v: Vec<u32> }, C }
enum Outer { P(Inner), Q, R }
static STAGE: std::sync::Mutex<Option<Outer>> = std::sync::Mutex::new(None);
fn plain_ref(o: &Outer) -> usize { match o { Outer::P(Inner::A { .. }) => 1, Outer::P(_) => 2, Outer::Q => 3, Outer::R => 4 } }
async fn co_staged(o: Outer) -> usize {
    let o = match STAGE.lock().unwrap().take() { Some(s) => { std::mem::forget(o); s }, None => o };
    let r = plain_ref(&o); std::mem::forget(o); r
}
#[kani::proof]
#[kani::unwind(8)]
fn c99_tmp_a() {
    let o = Outer::P(Inner::A { x: kani::any() });
    *STAGE.lock().unwrap() = Some(o);
    let mut slot = Slot::new(co_staged(Outer::R));
    let r = match slot.poll() { std::task::Poll::Ready(v) => v, _ => 7 };
    assert!(spin(r) == 1);
}
