//! scratch probes (not registered: no @prop tag)
use super::util::*;
use std::task::Poll;

with_lean_model! {
#[kani::proof]
#[kani::unwind(5)]
#[kani::stub(alloc::fmt::format, empty_format)]
#[kani::stub(<crate::chmux::PortNumber as std::ops::Drop>::drop, noop_port_number_drop)]
fn c99_r11_close() {
    let (evt_tx, mut evt_rx) = tokio::sync::mpsc::channel(4);
    let (data_tx, data_rx) = tokio::sync::mpsc::unbounded_channel();
    let (mon, returner) = hc::monitor_pair(16);
    let mut rx = hr::receiver_new(11, 77, 8, 4, evt_tx, data_rx, returner, hp::allocator_new(8), hst::storage_new());
    let res = { let mut slot = Slot::new(rx.close()); slot.poll() };
    assert!(res.is_ready());
    assert!(hr::receiver_flags(&rx).0);
    assert!(matches!(pop_evt(&mut evt_rx), Evt::ReceiverClosed { local_port: 11 }));
    tokio::model::forget_tasks();
    std::mem::forget((rx, data_tx, evt_rx, mon, res));
}
}
