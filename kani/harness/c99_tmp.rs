use super::util::*;
use std::sync::{Arc, atomic::AtomicBool};
type Tx = tokio::sync::mpsc::UnboundedSender<hr::VPortReceiveMsg>;
enum PA { A { r: tokio::sync::oneshot::Sender<u8> }, B { t: Option<Tx>, x: bool, m: Arc<std::sync::Mutex<(u32, u32)>> } }
enum PB { A { r: tokio::sync::oneshot::Sender<u8> }, B { t: Option<Tx>, x: bool, f: Arc<AtomicBool> } }
#[repr(u8)]
enum PC { A { r: tokio::sync::oneshot::Sender<u8> }, B { p: u32, t: Option<Tx>, x: bool, y: bool, z: bool, w: bool } }
enum PD { A { r: tokio::sync::oneshot::Sender<u8> }, B { m: Arc<std::sync::Mutex<(u32, Option<bool>, Vec<u8>)>>, t: Option<Tx>, n: Arc<std::sync::Mutex<Option<Vec<u8>>>> } }

#[kani::proof]
#[kani::unwind(4)]
fn c99_tmp_a() {
    let (tx, mut rx) = tokio::sync::mpsc::unbounded_channel();
    let mut ps = PA::B { t: Some(tx), x: false, m: Arc::new(std::sync::Mutex::new((0, 16))) };
    let ok = match &mut ps { PA::B { t: Some(tx), .. } => tx.send(hr::VPortReceiveMsg::Finished).is_ok(), _ => false };
    assert!(ok);
    let item = rx_pop_raw(&mut rx);
    assert!(matches!(item, RxItem::Finished));
    std::mem::forget((ps, rx, item));
}

#[kani::proof]
#[kani::unwind(4)]
fn c99_tmp_b() {
    let (tx, mut rx) = tokio::sync::mpsc::unbounded_channel();
    let mut ps = PB::B { t: Some(tx), x: false, f: Arc::new(AtomicBool::new(false)) };
    let ok = match &mut ps { PB::B { t: Some(tx), .. } => tx.send(hr::VPortReceiveMsg::Finished).is_ok(), _ => false };
    assert!(ok);
    let item = rx_pop_raw(&mut rx);
    assert!(matches!(item, RxItem::Finished));
    std::mem::forget((ps, rx, item));
}

#[kani::proof]
#[kani::unwind(4)]
fn c99_tmp_c() {
    let (tx, mut rx) = tokio::sync::mpsc::unbounded_channel();
    let mut ps = PC::B { p: 7, t: Some(tx), x: false, y: false, z: false, w: false };
    let ok = match &mut ps { PC::B { t: Some(tx), .. } => tx.send(hr::recv_msg_finished()).is_ok(), _ => false };
    assert!(ok);
    let item = rx_pop_raw(&mut rx);
    assert!(matches!(item, RxItem::Finished));
    std::mem::forget((ps, rx, item));
}

#[kani::proof]
#[kani::unwind(4)]
fn c99_tmp_d() {
    let (tx, mut rx) = tokio::sync::mpsc::unbounded_channel();
    let mut ps = PD::B { m: Arc::new(std::sync::Mutex::new((1, None, Vec::new()))), t: Some(tx), n: Arc::new(std::sync::Mutex::new(Some(Vec::new()))) };
    let ok = match &mut ps { PD::B { t: Some(tx), .. } => tx.send(hr::VPortReceiveMsg::Finished).is_ok(), _ => false };
    assert!(ok);
    let item = rx_pop_raw(&mut rx);
    assert!(matches!(item, RxItem::Finished));
    std::mem::forget((ps, rx, item));
}

#[kani::proof]
#[kani::unwind(4)]
fn c99_tmp_e() {
    let (tx, mut rx) = tokio::sync::mpsc::unbounded_channel();
    let mut ps = PB::B { t: Some(tx), x: false, f: Arc::new(AtomicBool::new(false)) };
    let v = hr::VPortReceiveMsg::Finished;
    let ok = match &mut ps { PB::B { t, .. } => { let tx = t.as_ref().unwrap(); tx.send(v).is_ok() }, _ => false };
    assert!(ok);
    let item = rx_pop_raw(&mut rx);
    assert!(matches!(item, RxItem::Finished));
    std::mem::forget((ps, rx, item));
}
#[kani::proof]
#[kani::unwind(4)]
fn c99_tmp_f() {
    // data frame instead of Finished
    let (tx, mut rx) = tokio::sync::mpsc::unbounded_channel();
    let mut ps = PB::B { t: Some(tx), x: false, f: Arc::new(AtomicBool::new(false)) };
    let ok = match &mut ps { PB::B { t: Some(tx), .. } => tx.send(hr::recv_msg_data(bytes::Bytes::from_static(b"ab"), true, false, 2)).is_ok(), _ => false };
    assert!(ok);
    let item = rx_pop_raw(&mut rx);
    assert!(matches!(item, RxItem::Data { first: true, last: false, credit: 2, .. }));
    std::mem::forget((ps, rx, item));
}
