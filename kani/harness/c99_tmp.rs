//! scratch probes (not registered: no @prop tag)
use super::util::*;
