//! C13 / C14 — append-only list mirror (`robs/list.rs`): `MirroredListInner::handle_event`.
//! (The observable list itself routes every mutation through a spawned task and is outside.)

use super::util::*;
use crate::robs::list::{verif_hooks::VMirror, ListEvent};
use crate::robs::RecvError;

/// `kind`: 0 Push below the size limit, 1 Push at the size limit, 2 Done, 3 InitialComplete
fn list_mirror_case(kind: u8) {
    let a: u8 = kani::any();
    let b: u8 = kani::any();
    let x: u8 = kani::any();
    let complete0: bool = kani::any();
    let mut v = Vec::with_capacity(8);
    v.push(a);
    v.push(b);
    let max_size = if kind == 1 { 2 } else { 16 };
    let mut m = VMirror::new(v, complete0, false, max_size);
    let evt = match kind {
        0 | 1 => ListEvent::Push(x),
        2 => ListEvent::Done,
        _ => ListEvent::InitialComplete,
    };
    let res = m.handle_event(evt);
    match kind {
        0 => {
            assert!(res.is_ok());
            // appended at the end, nothing else moved
            assert!(m.contents().len() == 3 && m.contents()[0] == a && m.contents()[1] == b && m.contents()[2] == x);
            assert!(m.flags() == (complete0, false));
        }
        1 => assert!(matches!(&res, Err(RecvError::MaxSizeExceeded(2)))),
        2 => {
            assert!(res.is_ok());
            assert!(m.contents().len() == 2 && m.flags() == (complete0, true));
        }
        _ => {
            assert!(res.is_ok());
            assert!(m.contents().len() == 2 && m.flags() == (true, false));
        }
    }
    kani::cover!(true, "reached");
    std::mem::forget((m, res));
}

macro_rules! list_mirror_harness {
    ($($name:ident, $kind:expr;)*) => {$(
        /// @prop C13 C14
        /// @tier quick
        /// @fn robs::list::MirroredListInner::handle_event
        /// @bounds mirror holding two symbolic elements; one event per harness (Push below / at the size limit, Done, InitialComplete); element values and the complete flag symbolic
        /// @outside the observable list's dispatcher task, subscriptions, per-subscriber read positions
        /// Push appends exactly the element at the end; beyond max_size it is reported as MaxSizeExceeded; Done / InitialComplete set exactly their flag and leave the contents alone
        #[kani::proof]
        #[kani::unwind(4)]
        #[kani::stub(alloc::fmt::format, empty_format)]
        fn $name() {
            list_mirror_case($kind);
        }
    )*};
}

list_mirror_harness! {
    c13_list_mirror_push, 0;
    c14_list_mirror_push_max_size, 1;
    c13_list_mirror_done, 2;
    c13_list_mirror_initial_complete, 3;
}
