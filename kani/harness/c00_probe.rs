//! Build probe used by setup: compiles remoc with the models and checks that the
//! verification cfg is active.

/// @prop C00
/// @tier quick
/// @fn chmux::cfg::Cfg::max_frame_length
/// @bounds chunk_size full u32 below the documented maximum
#[kani::proof]
#[kani::unwind(2)]
fn c00_probe_build() {
    let mut cfg = crate::chmux::Cfg::default();
    cfg.chunk_size = kani::any();
    kani::assume(cfg.chunk_size <= u32::MAX - 16);
    assert!(cfg.max_frame_length() == cfg.chunk_size + 16);
    kani::cover!(cfg.chunk_size == u32::MAX - 16, "documented maximum chunk size reachable");
}
