//! C13 / C14 — observable vector and its mirror (`robs/vec.rs`): one mutator of the real
//! `ObservableVec`, its events taken from a real snapshot subscription and applied with the real
//! `MirroredVecInner::handle_event`; afterwards mirror == collection.

use super::util::*;
use crate::robs::vec::{verif_hooks::VMirror, ObservableVec, VecEvent, VecSubscription};
use std::task::Poll;

/// Contents of symbolic length 0..=2 with symbolic elements.
fn any_vec() -> Vec<u8> {
    let n: usize = kani::any();
    kani::assume(n <= 2);
    let a: u8 = kani::any();
    let b: u8 = kani::any();
    let mut v = Vec::new();
    if n >= 1 {
        v.push(a);
    }
    if n >= 2 {
        v.push(b);
    }
    v
}

fn same(a: &Vec<u8>, b: &Vec<u8>) -> bool {
    if a.len() != b.len() {
        return false;
    }
    let mut i = 0;
    while i < a.len() {
        if a[i] != b[i] {
            return false;
        }
        i += 1;
    }
    true
}

/// Applies all pending events of the subscription to the mirror; returns how many were applied.
fn drain(sub: &mut VecSubscription<u8>, mirror: &mut VMirror<u8>) -> usize {
    let mut n = 0;
    while n < 4 {
        let mut slot = Slot::new(sub.recv());
        match slot.poll() {
            Poll::Ready(Ok(Some(evt))) => {
                assert!(mirror.handle_event(evt).is_ok());
                n += 1;
            }
            Poll::Ready(Ok(None)) => break,
            Poll::Ready(Err(_)) => panic!("subscription reported an error"),
            Poll::Pending => break,
        }
    }
    n
}

#[derive(Clone, Copy, PartialEq, Eq)]
enum Op {
    Push,
    Pop,
    Insert,
    Remove,
    SwapRemove,
    GetMutWrite,
    GetMutRead,
    Fill,
    Resize,
    Truncate,
    Clear,
    Done,
}

fn vec_step_case(op: Op) {
    let v0 = any_vec();
    let len0 = v0.len();
    let mut ov: ObservableVec<u8> = ObservableVec::from(v0);
    let mut sub = ov.subscribe(8);
    let initial = sub.take_initial().expect("snapshot subscription carries the contents");
    let mut mirror = VMirror::new(initial, true, false, 16);
    assert!(same(mirror.contents(), &ov));

    let x: u8 = kani::any();
    let i: usize = kani::any();
    match op {
        Op::Push => ov.push(x),
        Op::Pop => {
            let _ = ov.pop();
        }
        Op::Insert => {
            kani::assume(i <= len0); // documented panic otherwise
            ov.insert(i, x);
        }
        Op::Remove => {
            kani::assume(i < len0); // documented panic otherwise
            let _ = ov.remove(i);
        }
        Op::SwapRemove => {
            kani::assume(i < len0); // documented panic otherwise
            let _ = ov.swap_remove(i);
        }
        Op::GetMutWrite => {
            kani::assume(i <= 2);
            if let Some(mut r) = ov.get_mut(i) {
                *r = x;
            }
        }
        Op::GetMutRead => {
            kani::assume(i <= 2);
            if let Some(r) = ov.get_mut(i) {
                let _ = *r;
            }
        }
        Op::Fill => ov.fill(x),
        Op::Resize => {
            kani::assume(i <= 3);
            ov.resize(i, x);
        }
        Op::Truncate => {
            kani::assume(i <= 3);
            ov.truncate(i);
        }
        Op::Clear => ov.clear(),
        Op::Done => ov.done(),
    }

    let applied = drain(&mut sub, &mut mirror);
    assert!(same(mirror.contents(), &ov));
    assert!(mirror.flags().1 == ov.is_done());
    kani::cover!(applied >= 1, "an event was emitted and applied");
    tokio::model::forget_tasks();
    std::mem::forget((ov, sub, mirror));
}

macro_rules! vec_step_harness {
    ($($name:ident, $op:expr;)*) => {$(
        with_lean_model! {
        /// @prop C13
        /// @tier quick
        /// @fn robs::vec::ObservableVec::{push,pop,insert,remove,swap_remove,get_mut,fill,resize,truncate,clear,done}
        /// @fn robs::vec::RefMut::drop
        /// @fn robs::vec::VecSubscription::{take_initial,recv}
        /// @fn robs::vec::MirroredVecInner::handle_event
        /// @fn rch::broadcast::Sender::send
        /// @bounds one mutator per harness; initial contents of length 0..=2 with symbolic u8 elements; index / new length / value arguments symbolic (indices restricted to the documented non-panicking range); snapshot subscription with room for all events
        /// @outside vectors longer than 2 before the step (longer histories are covered by induction over steps, longer vectors are not); incremental subscriptions and remote mirrors (spawned tasks, serde)
        /// after the mirror has processed the events the mutator emitted, it holds exactly the vector's contents, and reports done iff done() was called
        #[kani::proof]
        #[kani::unwind(5)]
        #[kani::stub(alloc::fmt::format, empty_format)]
        fn $name() {
            vec_step_case($op);
        }
        }
    )*};
}

vec_step_harness! {
    c13_vec_push, Op::Push;
    c13_vec_pop, Op::Pop;
    c13_vec_insert, Op::Insert;
    c13_vec_remove, Op::Remove;
    c13_vec_swap_remove, Op::SwapRemove;
    c13_vec_get_mut_write, Op::GetMutWrite;
    c13_vec_get_mut_read, Op::GetMutRead;
    c13_vec_fill, Op::Fill;
    c13_vec_resize, Op::Resize;
    c13_vec_truncate, Op::Truncate;
    c13_vec_clear, Op::Clear;
    c13_vec_done, Op::Done;
}
