//! C13 / C14 — observable vector and its mirror (`robs/vec.rs`): one mutator of the real
//! `ObservableVec`; the events it hands to `robs::send_event` (captured by the cfg(remoc_verif)
//! hook in emission order, instead of being broadcast) are applied with the real `MirroredVecInner::handle_event`;
//! afterwards mirror == collection.  The transport of events (rch::broadcast, rch::mpsc, codecs)
//! is not part of these harnesses.

use super::util::*;
use crate::robs::vec::{verif_hooks::VMirror, ObservableVec, VecEvent};
use crate::robs::RecvError;

const MAXLEN: usize = 3;

/// Contents of the given (concrete) length with symbolic elements.  The length is concrete per
/// harness and indices are case-split (`concrete_index!`): `Vec::insert/remove` are `memmove`s whose
/// size CBMC must know, a symbolic size does not terminate.
fn any_vec(n: usize) -> Vec<u8> {
    assert!(n <= MAXLEN);
    let e: [u8; MAXLEN] = kani::any();
    let mut v = Vec::with_capacity(8);
    let mut i = 0;
    while i < MAXLEN {
        if i < n {
            v.push(e[i]);
        }
        i += 1;
    }
    v
}

fn same(a: &Vec<u8>, b: &Vec<u8>) -> bool {
    if a.len() != b.len() {
        return false;
    }
    let mut i = 0;
    while i < a.len() {
        if a[i] != b[i] {
            return false;
        }
        i += 1;
    }
    true
}

/// Applies every recorded event to the mirror with the real `handle_event`; returns how many there were.
fn drain(mirror: &mut VMirror<u8>) -> usize {
    let evts: Vec<VecEvent<u8>> = crate::robs::verif_hooks::take_events();
    let n = evts.len();
    for evt in evts {
        assert!(mirror.handle_event(evt).is_ok());
    }
    n
}

/// Runs `$body` with `$c` bound to the concrete value of the symbolic index `$i` (0..=4).
macro_rules! concrete_index {
    ($i:expr, $c:ident => $body:expr) => {
        match $i {
            0 => { let $c: usize = 0; $body }
            1 => { let $c: usize = 1; $body }
            2 => { let $c: usize = 2; $body }
            3 => { let $c: usize = 3; $body }
            _ => { let $c: usize = 4; $body }
        }
    };
}

#[derive(Clone, Copy, PartialEq, Eq)]
pub enum Op {
    Push,
    Pop,
    Insert,
    Remove,
    SwapRemove,
    GetMutWrite,
    GetMutRead,
    IterMutWrite,
    IterMutBackWrite,
    Fill,
    Resize,
    Truncate,
    Clear,
    /// keep element number k iff bit k of the mask is set (concrete per harness: a symbolic predicate makes
    /// every element move of `retain` conditional and symex does not finish)
    Retain(u8),
    ShrinkToFit,
    Done,
}

/// `idx`: `Some(c)` fixes the index / new-length argument to the concrete value `c` (harness family) for the
/// mutators whose event carries the index into the mirror (a symbolic index there is a symbolic-offset write
/// into the mirror's heap buffer, which the solver does not finish); `None`: symbolic, case-split at the call.
fn vec_step_case(op: Op, n: usize, idx: Option<usize>) {
    let v0 = any_vec(n);
    let len0 = v0.len();
    // reference copy for the independent oracle
    let mut model: [u8; 8] = [0; 8];
    let mut k = 0;
    while k < len0 {
        model[k] = v0[k];
        k += 1;
    }
    let mut ov: ObservableVec<u8> = ObservableVec::from(v0.clone());
    let mut mirror = VMirror::new(v0, true, false, 16);
    crate::robs::verif_hooks::set_capture(true);

    let x: u8 = kani::any();
    let i: usize = match idx {
        Some(c) => c,
        None => kani::any(),
    };
    kani::assume(i <= MAXLEN + 1);
    // independent expectation of the collection's contents after the step (Vec semantics)
    let mut exp_len = len0;
    match op {
        Op::Push => {
            ov.push(x);
            model[len0] = x;
            exp_len = len0 + 1;
        }
        Op::Pop => {
            let r = ov.pop();
            if len0 > 0 {
                assert!(r == Some(model[len0 - 1]));
                exp_len = len0 - 1;
            } else {
                assert!(r.is_none());
            }
        }
        Op::Insert => {
            kani::assume(i <= len0); // documented panic otherwise
            concrete_index!(i, c => ov.insert(c, x));
            let mut k = len0;
            while k > i {
                model[k] = model[k - 1];
                k -= 1;
            }
            model[i] = x;
            exp_len = len0 + 1;
        }
        Op::Remove => {
            kani::assume(i < len0); // documented panic otherwise
            let r = concrete_index!(i, c => ov.remove(c));
            assert!(r == model[i]);
            let mut k = i;
            while k + 1 < len0 {
                model[k] = model[k + 1];
                k += 1;
            }
            exp_len = len0 - 1;
        }
        Op::SwapRemove => {
            kani::assume(i < len0); // documented panic otherwise
            let r = concrete_index!(i, c => ov.swap_remove(c));
            assert!(r == model[i]);
            model[i] = model[len0 - 1];
            exp_len = len0 - 1;
        }
        Op::GetMutWrite => {
            kani::assume(i <= MAXLEN);
            match ov.get_mut(i) {
                Some(mut r) => {
                    assert!(i < len0);
                    *r = x;
                    model[i] = x;
                }
                None => assert!(i >= len0),
            }
        }
        Op::GetMutRead => {
            kani::assume(i <= MAXLEN);
            if let Some(r) = ov.get_mut(i) {
                assert!(*r == model[i]);
            }
        }
        Op::IterMutWrite => {
            // write through the i-th reference handed out by the iterator (front to back)
            kani::assume(i < len0);
            let mut pos = 0;
            for mut r in ov.iter_mut() {
                if pos == i {
                    *r = x;
                }
                pos += 1;
            }
            assert!(pos == len0);
            model[i] = x;
        }
        Op::IterMutBackWrite => {
            // write through the i-th reference counted from the back
            kani::assume(i < len0);
            let mut it = ov.iter_mut();
            let mut pos = 0;
            while let Some(mut r) = it.next_back() {
                if pos == i {
                    *r = x;
                }
                pos += 1;
            }
            assert!(pos == len0);
            model[len0 - 1 - i] = x;
        }
        Op::Fill => {
            ov.fill(x);
            let mut k = 0;
            while k < len0 {
                model[k] = x;
                k += 1;
            }
        }
        Op::Resize => {
            kani::assume(i <= MAXLEN + 1);
            concrete_index!(i, c => ov.resize(c, x));
            let mut k = len0;
            while k < i {
                model[k] = x;
                k += 1;
            }
            exp_len = i;
        }
        Op::Truncate => {
            kani::assume(i <= MAXLEN + 1);
            concrete_index!(i, c => ov.truncate(c));
            if i < len0 {
                exp_len = i;
            }
        }
        Op::Clear => {
            ov.clear();
            exp_len = 0;
        }
        Op::Retain(mask) => {
            let mut pos = 0u8;
            ov.retain(|_| {
                let keep = (mask >> pos) & 1 == 1;
                pos += 1;
                keep
            });
            let mut w = 0;
            let mut k = 0;
            while k < len0 {
                if (mask >> k) & 1 == 1 {
                    model[w] = model[k];
                    w += 1;
                }
                k += 1;
            }
            exp_len = w;
        }
        Op::ShrinkToFit => ov.shrink_to_fit(),
        Op::Done => ov.done(),
    }

    // the collection itself behaves like a Vec (independent oracle) ...
    assert!(ov.len() == exp_len);
    let mut k = 0;
    while k < exp_len {
        assert!(ov[k] == model[k]);
        k += 1;
    }
    // ... and the mirror, fed with exactly the emitted events, equals it
    let applied = drain(&mut mirror);
    assert!(same(mirror.contents(), &ov));
    assert!(mirror.flags().1 == ov.is_done());
    assert!(ov.is_done() == (op == Op::Done));
    kani::cover!(applied >= 1, "an event was emitted and applied");
    kani::cover!(applied == 0, "no-op: nothing emitted, mirror untouched");
    std::mem::forget((ov, mirror));
}

macro_rules! vec_step_harness {
    ($($name:ident, $op:expr, $n:expr, $idx:expr;)*) => {$(
        with_lean_model! {
        /// @prop C13
        /// @tier quick
        /// @covers any
        /// @fn robs::vec::ObservableVec::{push,pop,insert,remove,swap_remove,get_mut,iter_mut,fill,resize,truncate,clear,retain,shrink_to_fit,done}
        /// @fn robs::vec::RefMut::drop
        /// @fn robs::vec::IterMut::{next,next_back}
        /// @fn robs::send_event
        /// @fn robs::vec::MirroredVecInner::handle_event
        /// @bounds one mutator and one initial length (0..=3, see harness name) per harness, symbolic u8 elements; index / new length / value / retain-predicate arguments symbolic (indices restricted to the documented non-panicking range); the mirror starts equal to the contents (snapshot subscription)
        /// @outside vectors longer than 3 before the step (longer histories are covered by induction over steps, longer vectors are not); the event transport (rch::broadcast / rch::mpsc / codecs / mirror task), incremental subscriptions and remote mirrors
        /// the collection behaves like a Vec, and after the mirror has processed exactly the events the mutator emitted it holds exactly the vector's contents and reports done iff done() was called
        #[kani::proof]
        #[kani::unwind(6)]
        #[kani::stub(alloc::fmt::format, empty_format)]
        fn $name() {
            vec_step_case($op, $n, $idx);
        }
        }
    )*};
}

vec_step_harness! {
    c13_vec_push_n0, Op::Push, 0, None;
    c13_vec_push_n2, Op::Push, 2, None;
    c13_vec_pop_n0, Op::Pop, 0, None;
    c13_vec_pop_n1, Op::Pop, 1, None;
    c13_vec_pop_n3, Op::Pop, 3, None;
    c13_vec_insert_n0, Op::Insert, 0, None;
    c13_vec_insert_n3_i0, Op::Insert, 3, Some(0);
    c13_vec_insert_n3_i2, Op::Insert, 3, Some(2);
    c13_vec_insert_n3_i3, Op::Insert, 3, Some(3);
    c13_vec_remove_n1, Op::Remove, 1, None;
    c13_vec_remove_n3_i0, Op::Remove, 3, Some(0);
    c13_vec_remove_n3_i2, Op::Remove, 3, Some(2);
    c13_vec_swap_remove_n1, Op::SwapRemove, 1, None;
    c13_vec_swap_remove_n3_i0, Op::SwapRemove, 3, Some(0);
    c13_vec_swap_remove_n3_i2, Op::SwapRemove, 3, Some(2);
    c13_vec_get_mut_write_n3_i0, Op::GetMutWrite, 3, Some(0);
    c13_vec_get_mut_write_n3_i2, Op::GetMutWrite, 3, Some(2);
    c13_vec_get_mut_write_n3_i3, Op::GetMutWrite, 3, Some(3);
    c13_vec_get_mut_read_n3_i1, Op::GetMutRead, 3, Some(1);
    c13_vec_iter_mut_write_n3_i0, Op::IterMutWrite, 3, Some(0);
    c13_vec_iter_mut_write_n3_i2, Op::IterMutWrite, 3, Some(2);
    c13_vec_iter_mut_back_write_n3_i0, Op::IterMutBackWrite, 3, Some(0);
    c13_vec_iter_mut_back_write_n3_i1, Op::IterMutBackWrite, 3, Some(1);
    c13_vec_fill_n0, Op::Fill, 0, None;
    c13_vec_fill_n3, Op::Fill, 3, None;
    c13_vec_resize_n2_i0, Op::Resize, 2, Some(0);
    c13_vec_resize_n2_i2, Op::Resize, 2, Some(2);
    c13_vec_resize_n2_i4, Op::Resize, 2, Some(4);
    c13_vec_truncate_n2_i0, Op::Truncate, 2, Some(0);
    c13_vec_truncate_n2_i1, Op::Truncate, 2, Some(1);
    c13_vec_truncate_n2_i2, Op::Truncate, 2, Some(2);
    c13_vec_truncate_n2_i3, Op::Truncate, 2, Some(3);
    c13_vec_clear_n0, Op::Clear, 0, None;
    c13_vec_clear_n2, Op::Clear, 2, None;
    c13_vec_retain_n3_m0, Op::Retain(0), 3, None;
    c13_vec_retain_n3_m1, Op::Retain(1), 3, None;
    c13_vec_retain_n3_m2, Op::Retain(2), 3, None;
    c13_vec_retain_n3_m4, Op::Retain(4), 3, None;
    c13_vec_retain_n3_m5, Op::Retain(5), 3, None;
    c13_vec_retain_n3_m6, Op::Retain(6), 3, None;
    c13_vec_retain_n3_m7, Op::Retain(7), 3, None;
    c13_vec_shrink_to_fit_n1, Op::ShrinkToFit, 1, None;
    c13_vec_done_n1, Op::Done, 1, None;
}

// ---------------------------------------------------------------------------
// C14: events that do not apply are reported, never silently mis-applied

/// `kind`: 0 Insert, 1 Set, 2 Remove, 3 SwapRemove, 4 Push beyond the size limit
fn vec_mirror_reject_case(kind: u8, n: usize) {
    let v0 = any_vec(n);
    let len0 = v0.len();
    let before = v0.clone();
    let max_size: usize = if kind == 4 { len0 } else { 16 };
    let mut mirror = VMirror::new(v0, true, false, max_size);
    let i: usize = kani::any();
    let x: u8 = kani::any();
    let evt0 = match kind {
        0 => VecEvent::Insert(i, x),
        1 => VecEvent::Set(i, x),
        2 => VecEvent::Remove(i),
        3 => VecEvent::SwapRemove(i),
        _ => VecEvent::Push(x),
    };
    // indices that apply are case-split (concrete memmove sizes); all others stay fully symbolic
    let res = if i <= len0 {
        let evt = concrete_index!(i, c => match kind {
            0 => VecEvent::Insert(c, x),
            1 => VecEvent::Set(c, x),
            2 => VecEvent::Remove(c),
            3 => VecEvent::SwapRemove(c),
            _ => VecEvent::Push(x),
        });
        std::mem::forget(evt0);
        mirror.handle_event(evt)
    } else {
        mirror.handle_event(evt0)
    };
    let applies = match kind {
        0 => i <= len0,
        4 => false,
        _ => i < len0,
    };
    if applies {
        assert!(res.is_ok());
    } else {
        match (kind, &res) {
            (4, Err(RecvError::MaxSizeExceeded(m))) => assert!(*m == max_size),
            (0..=3, Err(RecvError::InvalidIndex(j))) => {
                assert!(*j == i);
                // an event that does not apply leaves the last consistent contents in place
                assert!(same(mirror.contents(), &before));
            }
            _ => panic!("an event that does not apply must be reported with its documented error"),
        }
        kani::cover!(true, "inapplicable event reported");
    }
    std::mem::forget((mirror, before, res));
}

macro_rules! vec_reject_harness {
    ($($name:ident, $kind:expr, $n:expr;)*) => {$(
        /// @prop C14
        /// @tier quick
        /// @covers any
        /// @fn robs::vec::MirroredVecInner::handle_event
        /// @bounds mirror contents of length 2 (symbolic u8 elements); one event kind per harness (Insert, Set, Remove, SwapRemove with a fully symbolic index; Push at the size limit)
        /// @outside the mirror task that stores the error and stops applying events (spawned task); lag / drop-before-done / connection errors (channel layer)
        /// an index event is applied iff its index is valid for the current contents, otherwise InvalidIndex(index) is returned and the contents are untouched; a Push beyond max_size yields MaxSizeExceeded(max_size); nothing panics
        #[kani::proof]
        #[kani::unwind(6)]
        #[kani::stub(alloc::fmt::format, empty_format)]
        fn $name() {
            vec_mirror_reject_case($kind, $n);
        }
    )*};
}

vec_reject_harness! {
    c14_vec_mirror_insert_index, 0, 2;
    c14_vec_mirror_set_index, 1, 2;
    c14_vec_mirror_remove_index, 2, 2;
    c14_vec_mirror_swap_remove_index, 3, 2;
    c14_vec_mirror_push_max_size, 4, 2;
}
