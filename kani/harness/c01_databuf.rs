//! C01 — the container a received message is handed out in (`chmux/receiver.rs` `DataBuf`):
//! size-limited accumulation of chunks, the `Buf` view and the conversions to contiguous bytes.

use super::util::*;
use bytes::{Buf, Bytes};

static A: [u8; 3] = [0xA0, 0xA1, 0xA2];
static B: [u8; 2] = [0xB0, 0xB1];
static ALL: [u8; 5] = [0xA0, 0xA1, 0xA2, 0xB0, 0xB1];

fn two_chunks() -> crate::chmux::DataBuf {
    let mut chunks = Vec::with_capacity(4);
    chunks.push(Bytes::from_static(&A));
    chunks.push(Bytes::from_static(&B));
    hr::data_buf_from_chunks(chunks)
}

/// @prop C01 C04
/// @tier quick
/// @fn chmux::receiver::DataBuf::try_push
/// @bounds a buffer holding one 3-byte chunk; a further chunk of 2 bytes; max_data_size symbolic (full usize)
/// a chunk is appended iff the message stays within max_data_size (exactly at the limit still fits); then the reported length grows by exactly the chunk and the chunk is the last part; otherwise the chunk is handed back unchanged and the buffer is untouched
#[kani::proof]
#[kani::unwind(4)]
fn c01_databuf_try_push_limit() {
    let max: usize = kani::any();
    let mut chunks = Vec::with_capacity(4);
    chunks.push(Bytes::from_static(&A));
    let mut d = hr::data_buf_from_chunks(chunks);
    let res = hr::data_buf_try_push(&mut d, Bytes::from_static(&B), max);
    match res {
        Ok(()) => {
            assert!(max >= 5);
            assert!(d.remaining() == 5 && hr::data_buf_parts(&d) == 2);
            kani::cover!(max == 5, "exact fit accepted");
        }
        Err(back) => {
            assert!(max < 5);
            assert!(back.len() == 2 && back[0] == B[0] && back[1] == B[1]);
            assert!(d.remaining() == 3 && hr::data_buf_parts(&d) == 1);
            kani::cover!(max == 4, "one byte too many refused");
            std::mem::forget(back);
        }
    }
    std::mem::forget(d);
}

/// `k`: bytes consumed through the `Buf` API before the rest is converted (concrete per harness).
fn databuf_read_case(k: usize) {
    let mut d = two_chunks();
    assert!(d.remaining() == 5);
    assert!(d.chunk().len() == 3 && d.chunk()[0] == A[0]);
    d.advance(k);
    // the Buf view: length and next chunk after consuming k bytes
    assert!(d.remaining() == 5 - k);
    if k < 5 {
        assert!(d.has_remaining());
        assert!(d.chunk()[0] == ALL[k]);
        let seg_left = if k < 3 { 3 - k } else { 5 - k };
        assert!(d.chunk().len() == seg_left);
    } else {
        assert!(!d.has_remaining() && d.chunk().len() == 0);
    }
    // the contiguous conversion yields exactly the unread bytes, in order
    let v = Vec::<u8>::from(d);
    assert!(v.len() == 5 - k);
    let mut i = 0;
    while i < v.len() {
        assert!(v[i] == ALL[k + i]);
        i += 1;
    }
    kani::cover!(true, "read");
    std::mem::forget(v);
}

macro_rules! databuf_read_harness {
    ($($name:ident, $k:expr;)*) => {$(
        /// @prop C01 C04 C18
        /// @tier quick
        /// @fn chmux::receiver::DataBuf::{remaining,chunk,advance}
        /// @fn chmux::receiver::<Vec<u8> as From<DataBuf>>::from
        /// @bounds a message held as two chunks (3 + 2 bytes); 0..=5 bytes consumed through the Buf API first (concrete per harness)
        /// the Buf view reports exactly the unread length and the unread bytes in order across the chunk boundary, and the conversion to a contiguous vector yields exactly the unread bytes
        #[kani::proof]
        #[kani::unwind(7)]
        fn $name() {
            databuf_read_case($k);
        }
    )*};
}

databuf_read_harness! {
    c01_databuf_read_k0, 0;
    c01_databuf_read_k2, 2;
    c01_databuf_read_k3, 3;
    c01_databuf_read_k4, 4;
    c01_databuf_read_k5, 5;
}

/// @prop C01 C04
/// @tier quick
/// @fn chmux::receiver::<Bytes as From<DataBuf>>::from
/// @fn chmux::receiver::<bytes::BytesMut as From<DataBuf>>::from
/// @bounds a message held as two chunks (3 + 2 bytes) resp. as one chunk
/// converting a received message to Bytes yields exactly its bytes in order, whether it was received in one or in several chunks
#[kani::proof]
#[kani::unwind(7)]
fn c01_databuf_into_bytes() {
    let b = Bytes::from(two_chunks());
    assert!(b.len() == 5);
    let mut i = 0;
    while i < 5 {
        assert!(b[i] == ALL[i]);
        i += 1;
    }
    let mut one = Vec::with_capacity(2);
    one.push(Bytes::from_static(&A));
    let s = Bytes::from(hr::data_buf_from_chunks(one));
    assert!(s.len() == 3 && s[0] == A[0] && s[2] == A[2]);
    kani::cover!(true, "converted");
    std::mem::forget((b, s));
}
