//! C09 / C08 — wire format of protocol version 3 (`chmux/msg.rs`).
//!
//! The reference layout below is written from the documented protocol (message
//! codes 1..15, flag bits, little-endian fields, optional port ids) and shares no
//! code with the implementation.

use super::util::*;
use crate::chmux::verif::{ExchangedCfg, MultiplexMsg};
use std::time::Duration;

const MAX: usize = 26;

/// Reference message in plain data (a flat struct: an enum would get a niche-encoded
/// discriminant that CBMC's symbolic execution does not constant-fold).
/// `kind` is the documented message code; PortData uses `n` ports and the `f3` (ids) flag.
#[derive(Clone, Copy)]
struct Ref {
    kind: u8,
    /// first u32 field (port / client_port)
    a: u32,
    /// second u32 field (server_port / credits / chunk_size / open-port id)
    b: u32,
    /// third u32 field (receive buffer of Hello)
    c: u32,
    /// flag bits 0..3 in documented order
    f0: bool,
    f1: bool,
    f2: bool,
    f3: bool,
    version: u8,
    timeout_ms: u64,
    connect_queue: u16,
    n: usize,
    ports: [u32; 2],
    port_ids: [u32; 2],
}

struct W {
    buf: [u8; MAX],
    len: usize,
}
impl W {
    fn new() -> Self {
        W { buf: [0; MAX], len: 0 }
    }
    fn u8(&mut self, v: u8) {
        self.buf[self.len] = v;
        self.len += 1;
    }
    fn u16(&mut self, v: u16) {
        self.u8(v as u8);
        self.u8((v >> 8) as u8);
    }
    fn u32(&mut self, v: u32) {
        self.u16(v as u16);
        self.u16((v >> 16) as u16);
    }
    fn u64(&mut self, v: u64) {
        self.u32(v as u32);
        self.u32((v >> 32) as u32);
    }
}

/// Reference encoder: the documented byte layout of protocol version 3.
fn ref_encode(m: &Ref) -> W {
    let mut w = W::new();
    w.u8(m.kind);
    match m.kind {
        // Reset, Ping, ClientFinish, ListenerFinish, Goodbye: code only
        1 | 3 | 13 | 14 | 15 => (),
        // Hello: magic, version, cfg (timeout ms u64, chunk size u32, receive buffer u32, connect queue u16)
        2 => {
            w.u8(b'C');
            w.u8(b'H');
            w.u8(b'M');
            w.u8(b'U');
            w.u8(b'X');
            w.u8(0);
            w.u8(m.version);
            w.u64(m.timeout_ms);
            w.u32(m.b);
            w.u32(m.c);
            w.u16(m.connect_queue);
        }
        // OpenPort: client port, flags (bit0 wait, bit1 id present), optional id
        4 => {
            w.u32(m.a);
            w.u8((m.f0 as u8) | ((m.f1 as u8) << 1));
            if m.f1 {
                w.u32(m.b);
            }
        }
        // PortOpened: client port, server port; PortCredits: port, credits
        5 | 9 => {
            w.u32(m.a);
            w.u32(m.b);
        }
        // Rejected: client port, flags (bit0 no_ports)
        6 => {
            w.u32(m.a);
            w.u8(m.f0 as u8);
        }
        // Data: port, flags (bit0 first, bit1 last)
        7 => {
            w.u32(m.a);
            w.u8((m.f0 as u8) | ((m.f1 as u8) << 1));
        }
        // PortData: port, flags (bit0 first, bit1 last, bit2 wait, bit3 ids), then port [id] pairs
        8 => {
            w.u32(m.a);
            w.u8((m.f0 as u8) | ((m.f1 as u8) << 1) | ((m.f2 as u8) << 2) | ((m.f3 as u8) << 3));
            let mut i = 0;
            while i < m.n {
                w.u32(m.ports[i]);
                if m.f3 {
                    w.u32(m.port_ids[i]);
                }
                i += 1;
            }
        }
        // SendFinish, ReceiveClose, ReceiveFinish: port
        _ => w.u32(m.a),
    }
    w
}

/// An arbitrary message of the given kind (`80 + 2*n + ids` selects PortData with n ports).
fn any_ref(sel: u8) -> Ref {
    let mut m = Ref {
        kind: if sel >= 80 { 8 } else { sel },
        a: kani::any(),
        b: kani::any(),
        c: kani::any(),
        f0: kani::any(),
        f1: kani::any(),
        f2: kani::any(),
        f3: kani::any(),
        version: kani::any(),
        timeout_ms: kani::any(),
        connect_queue: kani::any(),
        n: 0,
        ports: kani::any(),
        port_ids: kani::any(),
    };
    if sel >= 80 {
        m.n = ((sel - 80) / 2) as usize;
        m.f3 = (sel - 80) % 2 == 1;
    }
    if m.kind == 2 {
        // the exchanged configuration is valid only with these minima
        kani::assume(m.b >= 4 && m.c >= 4 && m.connect_queue >= 1);
        // Duration::from_millis / as_millis divide 64/128-bit values by 1000: bounded to 2^20 ms (~17 min)
        kani::assume(m.timeout_ms < (1 << 20));
    }
    m
}

fn to_real(m: &Ref) -> MultiplexMsg {
    match m.kind {
        1 => MultiplexMsg::Reset,
        2 => MultiplexMsg::Hello {
            version: m.version,
            cfg: ExchangedCfg {
                connection_timeout: if m.timeout_ms == 0 { None } else { Some(Duration::from_millis(m.timeout_ms)) },
                chunk_size: m.b,
                port_receive_buffer: m.c,
                connect_queue: m.connect_queue,
            },
        },
        3 => MultiplexMsg::Ping,
        4 => MultiplexMsg::OpenPort { client_port: m.a, wait: m.f0, id: if m.f1 { Some(m.b) } else { None } },
        5 => MultiplexMsg::PortOpened { client_port: m.a, server_port: m.b },
        6 => MultiplexMsg::Rejected { client_port: m.a, no_ports: m.f0 },
        7 => MultiplexMsg::Data { port: m.a, first: m.f0, last: m.f1 },
        8 => {
            let mut p = Vec::new();
            let mut q = Vec::new();
            let mut i = 0;
            while i < m.n {
                p.push(m.ports[i]);
                q.push(m.port_ids[i]);
                i += 1;
            }
            MultiplexMsg::PortData {
                port: m.a,
                first: m.f0,
                last: m.f1,
                wait: m.f2,
                ports: p,
                ids: if m.f3 { Some(q) } else { None },
            }
        }
        9 => MultiplexMsg::PortCredits { port: m.a, credits: m.b },
        10 => MultiplexMsg::SendFinish { port: m.a },
        11 => MultiplexMsg::ReceiveClose { port: m.a },
        12 => MultiplexMsg::ReceiveFinish { port: m.a },
        13 => MultiplexMsg::ClientFinish,
        14 => MultiplexMsg::ListenerFinish,
        _ => MultiplexMsg::Goodbye,
    }
}

/// Field-wise comparison of a decoded message with the reference.
fn same(real: &MultiplexMsg, m: &Ref) -> bool {
    match (real, m.kind) {
        (MultiplexMsg::Reset, 1) => true,
        (MultiplexMsg::Hello { version, cfg }, 2) => {
            *version == m.version
                && cfg.chunk_size == m.b
                && cfg.port_receive_buffer == m.c
                && cfg.connect_queue == m.connect_queue
                && match cfg.connection_timeout {
                    None => m.timeout_ms == 0,
                    Some(d) => m.timeout_ms != 0 && d == Duration::from_millis(m.timeout_ms),
                }
        }
        (MultiplexMsg::Ping, 3) => true,
        (MultiplexMsg::OpenPort { client_port, wait, id }, 4) => {
            *client_port == m.a && *wait == m.f0 && *id == if m.f1 { Some(m.b) } else { None }
        }
        (MultiplexMsg::PortOpened { client_port, server_port }, 5) => *client_port == m.a && *server_port == m.b,
        (MultiplexMsg::Rejected { client_port, no_ports }, 6) => *client_port == m.a && *no_ports == m.f0,
        (MultiplexMsg::Data { port, first, last }, 7) => *port == m.a && *first == m.f0 && *last == m.f1,
        (MultiplexMsg::PortData { port, first, last, wait, ports, ids }, 8) => {
            let mut ok = *port == m.a && *first == m.f0 && *last == m.f1 && *wait == m.f2 && ports.len() == m.n;
            ok = ok && ids.is_some() == m.f3;
            let mut i = 0;
            while ok && i < m.n {
                ok = ports[i] == m.ports[i];
                if let Some(ids) = ids {
                    ok = ok && ids.len() == m.n && ids[i] == m.port_ids[i];
                }
                i += 1;
            }
            ok
        }
        (MultiplexMsg::PortCredits { port, credits }, 9) => *port == m.a && *credits == m.b,
        (MultiplexMsg::SendFinish { port }, 10) => *port == m.a,
        (MultiplexMsg::ReceiveClose { port }, 11) => *port == m.a,
        (MultiplexMsg::ReceiveFinish { port }, 12) => *port == m.a,
        (MultiplexMsg::ClientFinish, 13) => true,
        (MultiplexMsg::ListenerFinish, 14) => true,
        (MultiplexMsg::Goodbye, 15) => true,
        _ => false,
    }
}

fn encode_case(kind: u8) {
    let m = any_ref(kind);
    let real = to_real(&m);
    let bytes = hm::msg_to_vec(&real);
    let r = ref_encode(&m);
    assert!(bytes.len() == r.len);
    // unrolled comparison (keeps the harness's unwind bound independent of the frame length)
    macro_rules! same_at {
        ($($i:expr),*) => {$( if $i < r.len { assert!(bytes[$i] == r.buf[$i]); } )*};
    }
    same_at!(0, 1, 2, 3, 4, 5, 6, 7, 8, 9, 10, 11, 12, 13, 14, 15, 16, 17, 18, 19, 20, 21, 22, 23, 24, 25);
    kani::cover!(r.len > 0, "encoded");
    std::mem::forget((real, bytes));
}

fn decode_case(kind: u8) {
    let m = any_ref(kind);
    let r = ref_encode(&m);
    let res = hm::msg_read(&r.buf[..r.len]);
    match &res {
        Ok(real) => assert!(same(real, &m)),
        Err(_) => panic!("well-formed message rejected"),
    }
    kani::cover!(res.is_ok(), "decoded");
    std::mem::forget(res);
}

macro_rules! wire_cases {
    ($($enc:ident, $dec:ident, $kind:expr, $unw:expr, $name:expr;)*) => {$(
        /// @prop C09
        /// @tier quick
        /// @fn chmux::msg::MultiplexMsg::write
        /// @fn chmux::msg::ExchangedCfg::write
        /// @bounds one message kind per harness (all 15 kinds covered); every field and flag symbolic over its full range, except Hello's timeout < 2^20 ms; PortData as a family: 0, 1, 2 ports x ids present/absent
        /// @outside PortData with more than 2 ports; the payload frame following a Data message and the 4-byte length prefix (tokio-util codec, not encodable)
        /// emitted bytes equal the independently written protocol-v3 layout
        #[kani::proof]
        #[kani::unwind($unw)]
        fn $enc() {
            encode_case($kind);
        }

        /// @prop C09
        /// @tier quick
        /// @fn chmux::msg::MultiplexMsg::read
        /// @fn chmux::msg::ExchangedCfg::read
        /// @bounds one message kind per harness (all 15 kinds covered); input = reference encoding of a message with symbolic fields (Hello's timeout < 2^20 ms); PortData as a family: 0, 1, 2 ports x ids present/absent (the id-less forms are the version-2 layout)
        /// @outside PortData with more than 2 ports
        /// every well-formed message of the layout is accepted and decodes to the same fields
        #[kani::proof]
        #[kani::unwind($unw)]
        #[kani::stub(alloc::fmt::format, empty_format)]
        fn $dec() {
            decode_case($kind);
        }
    )*};
}

wire_cases! {
    c09_enc_reset, c09_dec_reset, 1, 3, "Reset";
    c09_enc_hello, c09_dec_hello, 2, 8, "Hello";
    c09_enc_ping, c09_dec_ping, 3, 3, "Ping";
    c09_enc_open_port, c09_dec_open_port, 4, 3, "OpenPort";
    c09_enc_port_opened, c09_dec_port_opened, 5, 3, "PortOpened";
    c09_enc_rejected, c09_dec_rejected, 6, 3, "Rejected";
    c09_enc_data, c09_dec_data, 7, 3, "Data";
    c09_enc_port_data_0, c09_dec_port_data_0, 80, 5, "PortData, no ports, no ids";
    c09_enc_port_data_0i, c09_dec_port_data_0i, 81, 5, "PortData, no ports, ids flag";
    c09_enc_port_data_1, c09_dec_port_data_1, 82, 5, "PortData, 1 port, no ids";
    c09_enc_port_data_1i, c09_dec_port_data_1i, 83, 5, "PortData, 1 port with id";
    c09_enc_port_data_2, c09_dec_port_data_2, 84, 5, "PortData, 2 ports, no ids";
    c09_enc_port_data_2i, c09_dec_port_data_2i, 85, 5, "PortData, 2 ports with ids";
    c09_enc_port_credits, c09_dec_port_credits, 9, 3, "PortCredits";
    c09_enc_send_finish, c09_dec_send_finish, 10, 3, "SendFinish";
    c09_enc_receive_close, c09_dec_receive_close, 11, 3, "ReceiveClose";
    c09_enc_receive_finish, c09_dec_receive_finish, 12, 3, "ReceiveFinish";
    c09_enc_client_finish, c09_dec_client_finish, 13, 3, "ClientFinish";
    c09_enc_listener_finish, c09_dec_listener_finish, 14, 3, "ListenerFinish";
    c09_enc_goodbye, c09_dec_goodbye, 15, 3, "Goodbye";
}

/// @prop C09
/// @tier quick
/// @fn chmux::PROTOCOL_VERSION
/// the announced protocol version is 3 and ids are sent from version 3 on
#[kani::proof]
#[kani::unwind(2)]
fn c09_protocol_version_constant() {
    assert!(crate::chmux::PROTOCOL_VERSION == 3);
    assert!(crate::chmux::verif::PROTOCOL_VERSION_PORT_ID == 3);
    kani::cover!(true, "reached");
}

// ---------------------------------------------------------------------------
// Frame length limit (stream transports): every port message the sender composes fits the limit the
// peer derives from the chunk size it advertised.

/// @prop C09 C05 C02 C03
/// @tier quick
/// @fn chmux::sender::max_ports_per_message
/// @fn chmux::cfg::Cfg::max_frame_length
/// @bounds chunk size advertised by the peer: any u32 in 4..=u32::MAX-16 (larger values make max_frame_length panic by contract); available credits: any u32
/// @outside the batching loop of Sender::connect itself (async); the byte layout of a PortData message (6 header bytes + 8 per port with ids) is established by the c09_enc_port_data harnesses
/// the number of ports Sender::connect puts into one message never costs more than the available credits or the peer's chunk size (4 per port), its frame (6 + 8 per port, ids included) never exceeds the frame length limit the peer configures from the chunk size it advertised, and it is at least one whenever 4 credits are available (progress)
#[kani::proof]
#[kani::unwind(2)]
fn c09_ports_per_message_fit_frame_limit() {
    let chunk: u32 = kani::any();
    let credits: u32 = kani::any();
    kani::assume(chunk >= 4 && chunk <= u32::MAX - 16);
    let n = crate::chmux::verif::sender::max_ports_per_message(chunk as usize, credits) as u64;
    let mut cfg = crate::chmux::Cfg::default();
    cfg.chunk_size = chunk;
    let limit = cfg.max_frame_length() as u64;
    assert!(4 * n <= credits as u64);
    assert!(4 * n <= chunk as u64);
    assert!(6 + 8 * n <= limit);
    if credits >= 4 {
        assert!(n >= 1);
    }
    kani::cover!(n >= 2 && 6 + 8 * (n + 1) > limit, "frame limit is the binding bound");
    kani::cover!(n >= 1 && 4 * (n + 1) > credits as u64, "credits are the binding bound");
}

// ---------------------------------------------------------------------------
// C08: decoding arbitrary (hostile) bytes

/// Decodes `N` arbitrary bytes with the real decoder.
fn decode_arbitrary<const N: usize>() {
    let bytes: [u8; N] = kani::any();
    let res = hm::msg_read(&bytes[..]);
    // never panics (Kani's panic / overflow / bounds checks are on); what is accepted is a well-formed prefix:
    // the first byte is a known message code
    if let Ok(msg) = &res {
        assert!(N >= 1 && bytes[0] >= 1 && bytes[0] <= 15);
        kani::cover!(true, "some byte strings decode");
    } else {
        kani::cover!(true, "some byte strings are rejected");
    }
    std::mem::forget(res);
}

macro_rules! decode_arbitrary_harness {
    ($($name:ident, $n:expr;)*) => {$(
        /// @prop C08 C09
        /// @tier quick
        /// @covers any
        /// @fn chmux::msg::MultiplexMsg::read
        /// @fn chmux::msg::ExchangedCfg::read
        /// @bounds a frame of concrete length (family: 0, 1, 5, 6, 10, 14 bytes) whose bytes are all symbolic, including the message code
        /// @outside longer frames (PortData frames with more than 2 ports, Hello frames are 22+ bytes)
        /// decoding never panics, overflows or reads out of bounds; it returns a message only if the frame starts with a known message code, otherwise an error
        #[kani::proof]
        #[kani::unwind(9)]
        #[kani::stub(alloc::fmt::format, empty_format)]
        fn $name() {
            decode_arbitrary::<$n>();
        }
    )*};
}

decode_arbitrary_harness! {
    c08_decode_arbitrary_0, 0;
    c08_decode_arbitrary_1, 1;
    c08_decode_arbitrary_5, 5;
    c08_decode_arbitrary_6, 6;
    c08_decode_arbitrary_10, 10;
    c08_decode_arbitrary_14, 14;
}

/// @prop C08 C09 C02
/// @tier quick
/// @fn chmux::msg::ExchangedCfg::read
/// @bounds 18 arbitrary bytes (the size of an exchanged configuration), all symbolic
/// a configuration announced by the peer is accepted iff chunk size >= 4, receive buffer >= 4 and connect queue >= 1 (the limits every later credit computation relies on), the accepted values are exactly the little-endian fields, and decoding never panics
#[kani::proof]
#[kani::unwind(4)]
#[kani::stub(alloc::fmt::format, empty_format)]
fn c08_decode_arbitrary_cfg() {
    let b: [u8; 18] = kani::any();
    let res = hm::cfg_read(&b[..]);
    let millis = u64::from_le_bytes([b[0], b[1], b[2], b[3], b[4], b[5], b[6], b[7]]);
    let chunk = u32::from_le_bytes([b[8], b[9], b[10], b[11]]);
    let buffer = u32::from_le_bytes([b[12], b[13], b[14], b[15]]);
    let queue = u16::from_le_bytes([b[16], b[17]]);
    match &res {
        Ok(cfg) => {
            assert!(chunk >= 4 && buffer >= 4 && queue >= 1);
            assert!(cfg.chunk_size == chunk && cfg.port_receive_buffer == buffer && cfg.connect_queue == queue);
            assert!(cfg.connection_timeout.is_none() == (millis == 0));
            kani::cover!(true, "valid configuration accepted");
        }
        Err(_) => {
            assert!(chunk < 4 || buffer < 4 || queue < 1);
            kani::cover!(chunk < 4, "too small chunk size rejected");
        }
    }
    std::mem::forget(res);
}
