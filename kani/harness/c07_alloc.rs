//! C07 / C10 — port number allocator (`chmux/port_allocator.rs`): numbers handed out are unused
//! and bounded by the limit; releasing a number frees exactly it and wakes every waiter.

use super::util::*;
use tokio::sync::oneshot::error::TryRecvError;

use std::sync::atomic::{AtomicU32, Ordering::Relaxed};
static RAND_CALLS: AtomicU32 = AtomicU32::new(0);
static RAND_EXCLUDE0: AtomicU32 = AtomicU32::new(0);
static RAND_EXCLUDE1: AtomicU32 = AtomicU32::new(0);

/// Stub for `rand::random::<u32>()`: the first draw is arbitrary (it may collide with a number in
/// use), every later draw is arbitrary but not one of the two numbers the harness put in use - so the
/// retry loop of `try_allocate` is exercised and terminates within the unwind bound.
fn model_random<T>() -> T {
    let v: u32 = kani::any();
    let calls = RAND_CALLS.load(Relaxed) + 1;
    RAND_CALLS.store(calls, Relaxed);
    if calls > 1 {
        kani::assume(v != RAND_EXCLUDE0.load(Relaxed) && v != RAND_EXCLUDE1.load(Relaxed));
    }
    tokio::model::from_u32(v)
}

with_map_model! {
/// @prop C07 C10
/// @tier quick
/// @fn chmux::port_allocator::PortAllocator::try_allocate
/// @fn chmux::port_allocator::PortAllocatorInner::try_allocate
/// @bounds two numbers in use (symbolic, distinct); limit symbolic (full u32); random source: first draw arbitrary (may collide), later draws arbitrary outside the used set
/// @outside more than two numbers in use; more than one collision of the random draw (the retry loop is the same code for every further collision)
/// a number is handed out iff fewer numbers are in use than the limit allows; it is never one that is in use, it is recorded as used, and nothing else changes
#[kani::proof]
#[kani::unwind(4)]
#[kani::stub(rand::random, model_random)]
#[kani::stub(alloc::fmt::format, empty_format)]
fn c07_alloc_try_allocate() {
    let limit: u32 = kani::any();
    let a: u32 = kani::any();
    let b: u32 = kani::any();
    kani::assume(a != b);
    RAND_EXCLUDE0.store(a, Relaxed);
    RAND_EXCLUDE1.store(b, Relaxed);
    let alloc = hp::allocator_new(limit);
    let pa = hp::allocator_reserve(&alloc, a);
    let pb = hp::allocator_reserve(&alloc, b);
    assert!(hp::allocator_state(&alloc).0 == 2);

    let got = alloc.try_allocate();

    match &got {
        Some(n) => {
            assert!(limit > 2);
            let n: u32 = **n;
            assert!(n != a && n != b);
            assert!(hp::allocator_contains(&alloc, n));
            assert!(hp::allocator_state(&alloc).0 == 3);
            kani::cover!(RAND_CALLS.load(Relaxed) == 2, "a colliding draw was retried");
        }
        None => {
            assert!(limit <= 2);
            assert!(hp::allocator_state(&alloc).0 == 2);
            kani::cover!(true, "limit reached");
        }
    }
    assert!(hp::allocator_contains(&alloc, a) && hp::allocator_contains(&alloc, b));
    std::mem::forget((alloc, pa, pb, got));
}
}

/// `cancelled_first`: the waiter registered first has given up (its receiving end is gone).
fn release_case(cancelled_first: bool) {
    let a: u32 = kani::any();
    let b: u32 = kani::any();
    kani::assume(a != b);
    let alloc = hp::allocator_new(2);
    let pa = hp::allocator_reserve(&alloc, a);
    let pb = hp::allocator_reserve(&alloc, b);
    let mut w1 = hp::allocator_add_waiter(&alloc);
    let mut w2 = hp::allocator_add_waiter(&alloc);
    let mut w3 = hp::allocator_add_waiter(&alloc);
    if cancelled_first {
        drop(w1);
        w1 = hp::allocator_add_waiter(&alloc); // a further live waiter, registered last
    }

    drop(pa);

    // exactly the released number is free again ...
    assert!(!hp::allocator_contains(&alloc, a));
    assert!(hp::allocator_contains(&alloc, b));
    let (used, _, waiting) = hp::allocator_state(&alloc);
    assert!(used == 1);
    // ... and every waiter was woken (each one re-checks availability itself), none is left registered
    assert!(waiting == 0);
    assert!(w1.try_recv() == Ok(()));
    assert!(w2.try_recv() == Ok(()));
    assert!(w3.try_recv() == Ok(()));
    kani::cover!(true, "released");
    std::mem::forget((alloc, pb, w1, w2, w3));
}

with_map_model! {
/// @prop C07 C10 C03
/// @tier quick
/// @fn chmux::port_allocator::PortNumber::drop
/// @bounds two numbers in use (symbolic, distinct), three registered waiters
/// releasing a port number frees exactly that number and wakes every registered waiter (no lost wake-up)
#[kani::proof]
#[kani::unwind(6)]
#[kani::stub(alloc::fmt::format, empty_format)]
fn c07_alloc_release_wakes_all() {
    release_case(false);
}
}

with_map_model! {
/// @prop C07 C10 C03
/// @tier quick
/// @fn chmux::port_allocator::PortNumber::drop
/// @bounds as c07_alloc_release_wakes_all, but the waiter registered first was cancelled before the release
/// a waiter that gave up does not absorb the wake-up of the others: every live waiter is woken
#[kani::proof]
#[kani::unwind(6)]
#[kani::stub(alloc::fmt::format, empty_format)]
fn c07_alloc_release_after_cancelled_waiter() {
    release_case(true);
}
}
