//! C01 / C02 / C05 / C08 — data-path steps of the dispatcher (`chmux/mux.rs`):
//! Data / PortData / PortCredits received, SendData / SendPorts / ReturnCredits emitted.

use super::util::*;
use crate::chmux::verif::{ExchangedCfg, MultiplexMsg};
use bytes::Bytes;
use tokio::sync::oneshot;

const P: u32 = 11;
const R: u32 = 77;
const O: u32 = 50;

static PAYLOAD: [u8; 8] = [0xa1, 0xb2, 0xc3, 0xd4, 0xe5, 0xf6, 0x07, 0x18];

/// A payload of symbolic length 0..=8 (the dispatcher never looks at the content; equality of
/// what comes out with what went in is checked byte by byte).
fn any_payload() -> (Bytes, usize) {
    let len: usize = kani::any();
    kani::assume(len <= 8);
    (Bytes::from_static(&PAYLOAD).slice(0..len), len)
}

fn payload(len: usize) -> Bytes {
    Bytes::from_static(&PAYLOAD).slice(0..len)
}

/// Local limits symbolic (what the accounting depends on), remote side fixed.
fn local_params() -> MuxParams {
    let mut p = MuxParams::fixed();
    p.local_chunk = kani::any();
    p.local_buffer = kani::any();
    kani::assume(p.local_chunk >= 4 && p.local_buffer >= 4);
    p
}

fn same_payload(b: &Bytes, len: usize) -> bool {
    if b.len() != len {
        return false;
    }
    macro_rules! at {
        ($($i:expr),*) => {$( if $i < len && b[$i] != PAYLOAD[$i] { return false; } )*};
    }
    at!(0, 1, 2, 3, 4, 5, 6, 7);
    true
}

fn data_accounting_case(len: usize) {
    let p = local_params();
    let (mut mux, mut env) = new_mux(&p);
    let mut ends = insert_connected(&mut mux, P, R);
    let used: u32 = kani::any();
    kani::assume(used <= p.local_buffer);
    hx::mux_port_set_credits(&mut mux, P, p.remote_buffer, None, used);
    let data = payload(len);
    let first: bool = kani::any();
    let last: bool = kani::any();

    let res = step_msg!(mux, MultiplexMsg::Data { port: P, first, last }, Some(data));

    let cost = if len == 0 { 1u64 } else { len as u64 };
    let fits = len as u64 <= p.local_chunk as u64 && used as u64 + cost <= p.local_buffer as u64;
    let used_now = match hx::mux_port_view(&mux, P) {
        hx::PortView::Connected { monitor, .. } => {
            assert!(monitor.1 == p.local_buffer);
            monitor.0
        }
        _ => panic!("port must stay connected"),
    };
    assert!(used_now <= p.local_buffer);
    assert!(sent(&mut env).is_none());
    if fits {
        assert!(res.is_ok());
        assert!(used_now as u64 == used as u64 + cost);
        match rx_pop_raw(&mut ends.rx_data) {
            RxItem::Data { buf, first: f, last: l, credit } => {
                assert!(same_payload(&buf, len));
                assert!(f == first && l == last);
                assert!(credit as u64 == cost);
                std::mem::forget(buf);
            }
            _ => panic!("data frame expected in the port's receive queue"),
        }
        assert!(matches!(rx_pop_raw(&mut ends.rx_data), RxItem::Empty));
        kani::cover!(used as u64 + cost == p.local_buffer as u64, "buffer filled exactly");
    } else {
        assert!(matches!(&res, Err(e) if is_protocol(e)));
        assert!(used_now == used);
        assert!(matches!(rx_pop_raw(&mut ends.rx_data), RxItem::Empty));
        kani::cover!(len as u64 > p.local_chunk as u64, "over-long chunk rejected");
        kani::cover!(len as u64 <= p.local_chunk as u64, "credit overrun rejected");
    }
    std::mem::forget((mux, env, ends, res));
}

macro_rules! data_accounting_harness {
    ($($name:ident, $len:expr;)*) => {$(
        with_lean_model! {
        /// @prop C02 C01 C08
        /// @tier quick
        /// @fn chmux::mux::ChMux::handle_received_msg(Data)
        /// @fn chmux::credit::ChannelCreditMonitor::use_credits
        /// @bounds one connected port; local chunk size and receive buffer symbolic (full u32, >= 4); used credit symbolic (<= buffer); payload length concrete per harness (family 0, 1, 5, 8 bytes); first/last flags symbolic
        /// @outside payloads longer than 8 bytes (the handler only reads the length)
        /// a frame is accepted iff it is no longer than the advertised chunk size and fits the remaining receive buffer (an empty frame costs 1); then exactly that frame (same bytes, same flags) is queued for exactly that port with its credit, and the accounted use grows by exactly that credit; otherwise Protocol error, nothing queued, accounting untouched
        #[kani::proof]
        #[kani::unwind(4)]
        #[kani::stub(alloc::fmt::format, empty_format)]
        fn $name() {
            data_accounting_case($len);
        }
        }
    )*};
}

data_accounting_harness! {
    c02_msg_data_len0, 0;
    c02_msg_data_len1, 1;
    c02_msg_data_len5, 5;
    c02_msg_data_len8, 8;
}

/// `sel`: 0 = the connected port after its remote sender finished, 1 = a connecting port, 2 = an unknown port.
fn wrong_port_case(sel: u8, port_data: bool) {
    let (mut mux, mut env) = new_mux(&MuxParams::fixed());
    let mut ends = insert_connected(&mut mux, P, R);
    let mut flags = any_port_flags();
    flags.remote_sender_finished = true;
    flags.remote_receiver_closed = false;
    flags.remote_receiver_dropped = false;
    hx::mux_port_set_flags(&mut mux, P, flags);
    let pn = hp::allocator_reserve(&hx::mux_allocator(&mux), 12);
    let rrx = hx::mux_add_connecting(&mut mux, pn);
    let target = match sel {
        0 => P,
        1 => 12,
        _ => 13,
    };
    let res = if !port_data {
        let (data, _len) = any_payload();
        step_msg!(mux, MultiplexMsg::Data { port: target, first: kani::any(), last: kani::any() }, Some(data))
    } else {
        step_msg!(
            mux,
            MultiplexMsg::PortData { port: target, first: true, last: true, wait: false, ports: Vec::new(), ids: None },
            None
        )
    };
    assert!(matches!(&res, Err(e) if is_protocol(e)));
    assert!(matches!(rx_pop_raw(&mut ends.rx_data), RxItem::Empty));
    assert!(sent(&mut env).is_none());
    kani::cover!(true, "rejected");
    std::mem::forget((mux, env, ends, rrx, res));
}

macro_rules! wrong_port_harness {
    ($($name:ident, $sel:expr, $pd:expr;)*) => {$(
        with_lean_model! {
        /// @prop C08 C01 C11
        /// @tier quick
        /// @fn chmux::mux::ChMux::handle_received_msg(Data | PortData)
        /// @bounds one connected port whose remote sender already finished (other flags symbolic) and one connecting port; family: Data for the finished / the connecting / an unknown port, PortData for an unknown port; payload length 0..=8 and flags symbolic
        /// data for a port that is not connected or whose remote sender already finished is a Protocol error, queues nothing and never panics
        #[kani::proof]
        #[kani::unwind(4)]
        #[kani::stub(alloc::fmt::format, empty_format)]
        fn $name() {
            wrong_port_case($sel, $pd);
        }
        }
    )*};
}

wrong_port_harness! {
    c08_msg_data_after_send_finish, 0, false;
    c08_msg_data_for_connecting_port, 1, false;
    c08_msg_data_for_unknown_port, 2, false;
    c08_msg_port_data_for_unknown_port, 2, true;
}

fn port_data_case(n: usize, with_ids: bool) {
    let p = local_params();
    let (mut mux, mut env) = new_mux(&p);
    let mut ends = insert_connected(&mut mux, P, R);
    let used: u32 = kani::any();
    kani::assume(used <= p.local_buffer);
    hx::mux_port_set_credits(&mut mux, P, p.remote_buffer, None, used);
    assert!(hx::mux_add_outstanding(&mut mux, O));
    let a: u32 = kani::any();
    let b: u32 = kani::any();
    let ia: u32 = kani::any();
    let ib: u32 = kani::any();
    let wait: bool = kani::any();
    let first: bool = kani::any();
    let last: bool = kani::any();
    let mut ports = Vec::new();
    let mut ids = Vec::new();
    if n >= 1 {
        ports.push(a);
        ids.push(ia);
    }
    if n >= 2 {
        ports.push(b);
        ids.push(ib);
    }
    let msg = MultiplexMsg::PortData { port: P, first, last, wait, ports, ids: if with_ids { Some(ids) } else { None } };

    let res = step_msg!(mux, msg, None);

    let dup = (n >= 1 && a == O) || (n >= 2 && (b == O || b == a));
    let cost = 4 * n as u64;
    let fits = cost <= p.local_chunk as u64 && used as u64 + cost <= p.local_buffer as u64;
    let used_now = match hx::mux_port_view(&mux, P) {
        hx::PortView::Connected { monitor, .. } => monitor.0,
        _ => panic!("port must stay connected"),
    };
    assert!(used_now <= p.local_buffer);
    assert!(sent(&mut env).is_none());
    if dup || !fits {
        assert!(matches!(&res, Err(e) if is_protocol(e)));
        assert!(used_now == used);
        assert!(matches!(rx_pop_raw(&mut ends.rx_data), RxItem::Empty));
        kani::cover!(dup, "request for an already outstanding port rejected");
        kani::cover!(!dup && !fits, "credit overrun rejected");
    } else {
        assert!(res.is_ok());
        assert!(used_now as u64 == used as u64 + cost);
        match rx_pop_raw(&mut ends.rx_data) {
            RxItem::Ports { requests, first: f, last: l, credit } => {
                assert!(f == first && l == last);
                assert!(credit as u64 == cost);
                assert!(requests.len() == n);
                if n >= 1 {
                    assert!(requests[0].remote_port() == a);
                    assert!(requests[0].id() == if with_ids { ia } else { a });
                    assert!(requests[0].is_wait() == wait);
                    assert!(hx::mux_is_outstanding(&mux, a));
                }
                if n >= 2 {
                    assert!(requests[1].remote_port() == b);
                    assert!(requests[1].id() == if with_ids { ib } else { b });
                    assert!(requests[1].is_wait() == wait);
                    assert!(hx::mux_is_outstanding(&mux, b));
                }
                // bounded buffering: whatever is queued for a port is paid for with credit
                assert!(credit >= 1);
                std::mem::forget(requests);
            }
            _ => panic!("port requests expected in the port's receive queue"),
        }
        assert!(matches!(rx_pop_raw(&mut ends.rx_data), RxItem::Empty));
        assert!(hx::mux_is_outstanding(&mux, O));
        kani::cover!(true, "accepted");
    }
    tokio::model::forget_tasks();
    std::mem::forget((mux, env, ends, res));
}

macro_rules! port_data_harness {
    ($($name:ident, $n:expr, $ids:expr;)*) => {$(
        with_lean_model! {
        /// @prop C02 C05 C08
        /// @tier quick
        /// @fn chmux::mux::ChMux::handle_received_msg(PortData)
        /// @fn chmux::listener::Request::new
        /// @bounds one connected port, one outstanding request; frame with a concrete number of port requests (family: 1 and 2 ports, with and without ids); port numbers, ids, flags, buffer sizes and used credit symbolic
        /// @outside frames with more than 2 port requests
        /// each port costs 4 credits against the advertised buffer and chunk size; a port that is already outstanding (or repeated inside the frame) is a Protocol error; otherwise the requests are queued in order for exactly that port, request i carrying (ports[i], ids[i] or ports[i], wait), and every port is recorded as outstanding
        #[kani::proof]
        #[kani::unwind(4)]
        #[kani::stub(alloc::fmt::format, empty_format)]
        fn $name() {
            port_data_case($n, $ids);
        }
        }
    )*};
}

port_data_harness! {
    c02_msg_port_data_1, 1, false;
    c02_msg_port_data_1i, 1, true;
    c02_msg_port_data_2, 2, false;
    c02_msg_port_data_2i, 2, true;
}

with_lean_model! {
/// @prop C08 C02
/// @tier quick
/// @known F5
/// @fn chmux::mux::ChMux::handle_received_msg(PortData)
/// @bounds one connected port; a PortData frame that carries no port request at all (flags symbolic)
/// REPRODUCER of known finding F5: an empty PortData frame is queued for the port without costing any credit, so a peer can make the endpoint buffer an unbounded number of frames for a port whose receiver does not consume (the property demands buffering bounded by the advertised receive buffer)
#[kani::proof]
#[kani::unwind(4)]
#[kani::stub(alloc::fmt::format, empty_format)]
fn c08_msg_port_data_empty_known_f5() {
    port_data_case(0, kani::any());
}
}

with_lean_model! {
/// @prop C02 C03 C08
/// @tier quick
/// @fn chmux::mux::ChMux::handle_received_msg(PortCredits)
/// @fn chmux::credit::CreditProvider::provide
/// @bounds one connected port with symbolic pool, closed state and one blocked waiter; granted credits full u32
/// frame -> pool: the pool grows by exactly the granted amount and blocked senders are woken; an overflowing grant is a Protocol error with the pool untouched; never panics
#[kani::proof]
#[kani::unwind(4)]
#[kani::stub(alloc::fmt::format, empty_format)]
fn c02_msg_port_credits() {
    let (mut mux, mut env) = new_mux(&MuxParams::fixed());
    let ends = insert_connected(&mut mux, P, R);
    let pool: u32 = kani::any();
    let closed: Option<bool> = kani::any();
    let credits: u32 = kani::any();
    hx::mux_port_set_credits(&mut mux, P, pool, closed, 0);
    let mut w = hx::mux_port_add_credit_waiter(&mut mux, P);

    let res = step_msg!(mux, MultiplexMsg::PortCredits { port: P, credits }, None);

    let now = match hx::mux_port_view(&mux, P) {
        hx::PortView::Connected { sender_credits, .. } => sender_credits,
        _ => panic!("port must stay connected"),
    };
    assert!(now.1 == closed);
    assert!(sent(&mut env).is_none());
    if pool as u64 + credits as u64 <= u32::MAX as u64 {
        assert!(res.is_ok());
        assert!(now.0 == pool + credits);
        assert!(now.2 == 0);
        assert!(w.try_recv() == Ok(()));
        kani::cover!(credits > 0, "credit granted");
    } else {
        assert!(matches!(&res, Err(e) if is_protocol(e)));
        assert!(now.0 == pool);
        kani::cover!(true, "overflowing grant rejected");
    }
    std::mem::forget((mux, env, ends, res, w));
}
}

with_lean_model! {
/// @prop C01 C02 C09
/// @tier quick
/// @fn chmux::mux::ChMux::handle_event(SendData | ReturnCredits)
/// @bounds event kind symbolic; remote port, flags, credit amount symbolic; payload length 0..=8
/// a SendData event becomes exactly one Data{port, first, last} frame carrying the same bytes; a ReturnCredits event becomes exactly one PortCredits{port, credits} frame; the port table is not consulted or changed
#[kani::proof]
#[kani::unwind(4)]
#[kani::stub(alloc::fmt::format, empty_format)]
fn c01_evt_send_data_and_credits() {
    let (mut mux, mut env) = new_mux(&MuxParams::fixed());
    let remote_port: u32 = kani::any();
    if kani::any() {
        let (data, len) = any_payload();
        let first: bool = kani::any();
        let last: bool = kani::any();
        let evt = hx::port_evt(hx::PortEvtView::SendData { remote_port, data, first, last });
        let res = step_event!(mux, env, hx::g_port(evt));
        assert!(res.is_ok());
        match sent(&mut env) {
            Some((MultiplexMsg::Data { port, first: f, last: l }, Some(buf))) => {
                assert!(port == remote_port && f == first && l == last);
                assert!(same_payload(&buf, len));
                std::mem::forget(buf);
            }
            _ => panic!("Data frame with payload expected"),
        }
        kani::cover!(len == 0, "empty payload forwarded");
        kani::cover!(len == 8, "full payload forwarded");
        std::mem::forget(res);
    } else {
        let credits: u32 = kani::any();
        let evt = hx::port_evt(hx::PortEvtView::ReturnCredits { remote_port, credits });
        let res = step_event!(mux, env, hx::g_port(evt));
        assert!(res.is_ok());
        match sent(&mut env) {
            Some((MultiplexMsg::PortCredits { port, credits: c }, None)) => assert!(port == remote_port && c == credits),
            _ => panic!("PortCredits frame expected"),
        }
        kani::cover!(true, "credits forwarded");
        std::mem::forget(res);
    }
    assert!(sent(&mut env).is_none());
    assert!(hx::mux_flags(&mux).ports == 0);
    std::mem::forget((mux, env));
}
}

fn send_ports_case(n: usize, v: u8) {
    let mut p = MuxParams::fixed();
    p.remote_version = v;
    let (mut mux, mut env) = new_mux(&p);
    let alloc = hx::mux_allocator(&mux);
    let id1: u32 = kani::any();
    let id2: u32 = kani::any();
    let (tx1, mut rx1) = oneshot::channel();
    let (tx2, mut rx2) = oneshot::channel();
    let mut ports = Vec::new();
    let r1 = crate::chmux::PortReq::new(hp::allocator_reserve(&alloc, 21)).with_id(id1);
    ports.push((r1, tx1));
    if n >= 2 {
        let r2 = crate::chmux::PortReq::new(hp::allocator_reserve(&alloc, 22)).with_id(id2);
        ports.push((r2, tx2));
    } else {
        std::mem::forget(tx2);
    }
    let remote_port: u32 = kani::any();
    let first: bool = kani::any();
    let last: bool = kani::any();
    let wait: bool = kani::any();
    let evt = hx::port_evt(hx::PortEvtView::SendPorts { remote_port, first, last, wait, ports });

    let res = step_event!(mux, env, hx::g_port(evt));
    assert!(res.is_ok());

    match sent(&mut env) {
        Some((MultiplexMsg::PortData { port, first: f, last: l, wait: w, ports, ids }, None)) => {
            assert!(port == remote_port && f == first && l == last && w == wait);
            assert!(ports.len() == n && ports[0] == 21);
            if n >= 2 {
                assert!(ports[1] == 22);
            }
            match &ids {
                Some(ids) => {
                    assert!(v >= 3);
                    assert!(ids.len() == n && ids[0] == id1);
                    if n >= 2 {
                        assert!(ids[1] == id2);
                    }
                }
                None => assert!(v < 3),
            }
            std::mem::forget((ports, ids));
        }
        _ => panic!("PortData frame expected"),
    }
    assert!(sent(&mut env).is_none());
    assert!(matches!(hx::mux_port_view(&mux, 21), hx::PortView::Connecting));
    assert!(matches!(rx1.try_recv(), Err(oneshot::error::TryRecvError::Empty)));
    if n >= 2 {
        assert!(matches!(hx::mux_port_view(&mux, 22), hx::PortView::Connecting));
        assert!(matches!(rx2.try_recv(), Err(oneshot::error::TryRecvError::Empty)));
    }
    kani::cover!(true, "emitted");
    std::mem::forget((mux, env, alloc, rx1, rx2, res));
}

macro_rules! send_ports_harness {
    ($($name:ident, $n:expr, $v:expr;)*) => {$(
        with_lean_model! {
        /// @prop C05 C09 C10
        /// @tier quick
        /// @fn chmux::mux::ChMux::handle_event(SendPorts)
        /// @bounds family: 1 or 2 port requests (local ports 21, 22) x remote protocol version 2 or 3; ids, remote port and flags symbolic
        /// @outside batches with more than 2 ports
        /// emits exactly one PortData{port, first, last, wait, ports in request order, ids in the same order iff version >= 3}; every requested port is entered as Connecting with its own responder, none of which is answered yet
        #[kani::proof]
        #[kani::unwind(4)]
        #[kani::stub(alloc::fmt::format, empty_format)]
        fn $name() {
            send_ports_case($n, $v);
        }
        }
    )*};
}

send_ports_harness! {
    c05_evt_send_ports_1_v3, 1, 3;
    c05_evt_send_ports_1_v2, 1, 2;
    c05_evt_send_ports_2_v3, 2, 3;
    c05_evt_send_ports_2_v2, 2, 2;
}

/// `lstate`: 0..=2 = listener alive with that many occupied wait-queue slots, 3 = listener dropped.
fn connection_level_case(kind: u8, lstate: u8) {
    let (mut mux, mut env) = new_mux(&MuxParams::fixed());
    let listener: bool = lstate < 3;
    hx::mux_set_flags(&mut mux, false, false, false, false, false, listener);
    let occupied: u8 = if lstate < 3 { lstate } else { 0 };
    if listener && occupied >= 1 {
        assert!(hx::mux_listen_fill(&mux, true));
    }
    if listener && occupied >= 2 {
        assert!(hx::mux_listen_fill(&mux, true));
    }
    let msg = match kind {
        0 => MultiplexMsg::Reset,
        1 => MultiplexMsg::Hello {
            version: kani::any(),
            cfg: ExchangedCfg { connection_timeout: None, chunk_size: 4, port_receive_buffer: 4, connect_queue: 1 },
        },
        2 => MultiplexMsg::Ping,
        3 => MultiplexMsg::ClientFinish,
        4 => MultiplexMsg::ListenerFinish,
        _ => MultiplexMsg::Goodbye,
    };
    let res = step_msg!(mux, msg, None);
    let f = hx::mux_flags(&mux);
    assert!(sent(&mut env).is_none());
    match kind {
        0 => assert!(matches!(&res, Err(crate::chmux::ChMuxError::Reset))),
        1 => assert!(matches!(&res, Err(e) if is_protocol(e))),
        2 => {
            assert!(res.is_ok());
            assert!(!f.remote_client_dropped && !f.remote_listener_dropped && !f.goodbye_received);
        }
        3 => {
            if listener && occupied == 2 {
                assert!(matches!(&res, Err(e) if is_protocol(e)));
            } else {
                assert!(res.is_ok());
                assert!(f.remote_client_dropped);
                if listener {
                    // the marker arrives behind everything already queued, in both queues
                    let mut k = 0;
                    while k < occupied {
                        assert!(matches!(env.listen_wait_rx.try_recv().map(hl::remote_connect_view), Ok(None)));
                        k += 1;
                    }
                    assert!(matches!(env.listen_wait_rx.try_recv().map(hl::remote_connect_view), Ok(None)));
                    assert!(matches!(env.listen_no_wait_rx.try_recv().map(hl::remote_connect_view), Ok(None)));
                }
            }
        }
        4 => {
            assert!(res.is_ok());
            assert!(f.remote_listener_dropped && !f.goodbye_received);
        }
        _ => {
            assert!(res.is_ok());
            assert!(f.goodbye_received && !f.remote_listener_dropped);
        }
    }
    kani::cover!(true, "reached");
    std::mem::forget((mux, env, res));
}

macro_rules! connection_level_harness {
    ($($name:ident, $kind:expr, $ls:expr;)*) => {$(
        with_lean_model! {
        /// @prop C08 C06 C07
        /// @tier quick
        /// @fn chmux::mux::ChMux::handle_received_msg(Reset | Hello | Ping | ClientFinish | ListenerFinish | Goodbye)
        /// @bounds one message kind per harness; listener state per harness (ClientFinish: alive with 0, 1, 2 occupied wait-queue slots, and dropped; others: alive with an empty queue)
        /// Reset terminates with the Reset error and Hello with a Protocol error; Ping changes nothing; ClientFinish tells the local listener behind everything queued (Protocol error if its queue is over-full); ListenerFinish and Goodbye set exactly their flag; nothing is sent and nothing panics
        #[kani::proof]
        #[kani::unwind(4)]
        #[kani::stub(alloc::fmt::format, empty_format)]
        fn $name() {
            connection_level_case($kind, $ls);
        }
        }
    )*};
}

connection_level_harness! {
    c08_msg_reset, 0, 0;
    c08_msg_hello, 1, 0;
    c08_msg_ping, 2, 0;
    c08_msg_client_finish_q0, 3, 0;
    c08_msg_client_finish_q1, 3, 1;
    c08_msg_client_finish_q2_overfull, 3, 2;
    c08_msg_client_finish_no_listener, 3, 3;
    c08_msg_listener_finish, 4, 0;
    c08_msg_goodbye, 5, 0;
}

with_lean_model! {
/// @prop C07
/// @tier quick
/// @fn chmux::mux::ChMux::should_terminate
/// @bounds all six connection flags symbolic; port table empty or holding one port; outstanding-request set empty or holding one entry
/// the dispatcher asks to terminate iff (no ports, no outstanding requests, clients dropped or remote listener dropped, listener dropped or remote clients dropped) or a Goodbye was sent or received
#[kani::proof]
#[kani::unwind(4)]
#[kani::stub(alloc::fmt::format, empty_format)]
fn c07_should_terminate_formula() {
    let (mut mux, env) = new_mux(&MuxParams::fixed());
    let all_clients_dropped: bool = kani::any();
    let remote_client_dropped: bool = kani::any();
    let remote_listener_dropped: bool = kani::any();
    let goodbye_sent: bool = kani::any();
    let goodbye_received: bool = kani::any();
    let listener_present: bool = kani::any();
    let has_port: bool = kani::any();
    let has_outstanding: bool = kani::any();
    hx::mux_set_flags(
        &mut mux, all_clients_dropped, remote_client_dropped, remote_listener_dropped, goodbye_sent,
        goodbye_received, listener_present,
    );
    let ends = if has_port { Some(insert_connected(&mut mux, P, R)) } else { None };
    if has_outstanding {
        hx::mux_add_outstanding(&mut mux, O);
    }
    let expect = (!has_port
        && !has_outstanding
        && (all_clients_dropped || remote_listener_dropped)
        && (!listener_present || remote_client_dropped))
        || goodbye_sent
        || goodbye_received;
    assert!(mux.verif_should_terminate() == expect);
    kani::cover!(expect && !goodbye_sent && !goodbye_received, "orderly termination");
    kani::cover!(!expect, "keeps running");
    std::mem::forget((mux, env, ends));
}
}
