//! C01 / C02 / C03 — frame emission on the sending port (`chmux/sender.rs`): `Sender::try_send`.

use super::util::*;
use crate::chmux::{Sender, TrySendError};
use bytes::Bytes;

const P: u32 = 11;
const R: u32 = 77;

static PAYLOAD: [u8; 6] = [0x61, 0x62, 0x63, 0x64, 0x65, 0x66];

struct TxFix {
    tx: Sender,
    evt_rx: tokio::sync::mpsc::Receiver<hx::VPortEvt>,
    evt_tx: tokio::sync::mpsc::Sender<hx::VPortEvt>,
    prov: hc::VProvider,
}

/// A real `Sender` with harness-owned event queue (capacity `queue`) and credit pool.
fn new_sender(chunk_size: usize, pool: u32, queue: usize) -> TxFix {
    let (evt_tx, evt_rx) = tokio::sync::mpsc::channel(queue);
    let (prov, user) = hc::send_pair(pool);
    let tx = hs::sender_new(
        P, R, chunk_size, 64, evt_tx.clone(), user, std::sync::Weak::new(), std::sync::Weak::new(),
        hp::allocator_new(8), hst::storage_new(),
    );
    TxFix { tx, evt_rx, evt_tx, prov }
}

/// `occupied`: slots of the event queue (capacity 3) already taken - concrete per harness: with a
/// symbolic fill level the queue-full error path (which moves a `PortEvt` through nested enums and
/// runs its drop glue with a discriminant CBMC no longer sees as constant) is explored at every chunk.
fn try_send_case(len: usize, occupied: usize) {
    const CHUNK: usize = 2;
    let pool: u32 = kani::any();
    assert!(occupied <= 3);
    let mut f = new_sender(CHUNK, pool, 3);
    let mut k = 0;
    while k < occupied {
        let dummy = hx::port_evt(hx::PortEvtView::ReceiverClosed { local_port: 99 });
        assert!(f.evt_tx.try_send(dummy).is_ok());
        k += 1;
    }
    let data = Bytes::from_static(&PAYLOAD).slice(0..len);

    let res = f.tx.try_send(&data);

    // drop the fillers
    let mut k = 0;
    while k < occupied {
        assert!(matches!(pop_evt(&mut f.evt_rx), Evt::ReceiverClosed { local_port: 99 }));
        k += 1;
    }
    let need: u32 = if len == 0 { 1 } else { len as u32 };
    let n_chunks = if len == 0 { 1 } else { (len + CHUNK - 1) / CHUNK };
    let room = 3 - occupied;
    let (pool_now, _, _) = hc::provider_state(&f.prov);

    // frames that were queued: a prefix of the message's chunk sequence, correctly marked
    let mut queued = 0usize;
    let mut wire: u32 = 0;
    loop {
        match pop_evt(&mut f.evt_rx) {
            Evt::Empty => break,
            Evt::SendData { remote_port, data, first, last } => {
                assert!(remote_port == R);
                let lo = queued * CHUNK;
                let hi = if lo + CHUNK < len { lo + CHUNK } else { len };
                assert!(data.len() == hi - lo);
                // no frame exceeds the advertised chunk size; only the sole frame of an empty message is empty
                assert!(data.len() <= CHUNK && (data.len() >= 1 || len == 0));
                let mut i = 0;
                while i < data.len() {
                    assert!(data[i] == PAYLOAD[lo + i]);
                    i += 1;
                }
                assert!(first == (queued == 0));
                assert!(last == (queued + 1 == n_chunks));
                wire += if data.len() == 0 { 1 } else { data.len() as u32 };
                queued += 1;
                std::mem::forget(data);
            }
            _ => panic!("unexpected event"),
        }
    }
    if pool < need {
        // not enough credit: nothing is put on the wire and nothing is consumed
        assert!(matches!(&res, Err(TrySendError::Full)));
        assert!(queued == 0 && pool_now == pool);
        kani::cover!(true, "refused for lack of credit");
    } else if room >= n_chunks {
        assert!(res.is_ok());
        assert!(queued == n_chunks && wire == need);
        assert!(pool_now == pool - need);
        kani::cover!(true, "sent completely");
    } else {
        // the event queue filled up part-way: the send fails, what was queued is an unfinished
        // prefix (the receiver discards it at the next `first`) ...
        assert!(matches!(&res, Err(TrySendError::Full)));
        assert!(queued == room);
        kani::cover!(room >= 1, "queue filled after a first chunk");
        kani::cover!(room == 0, "queue full from the start");
    }
    // ... and credit is conserved: pool + credit put on the wire = what the pool held before
    assert!(pool_now as u64 + wire as u64 == pool as u64);
    tokio::model::forget_tasks();
    std::mem::forget((f, res, data));
}

macro_rules! try_send_harness {
    ($($name:ident, $len:expr, $occ:expr;)*) => {$(
        with_lean_model! {
        /// @prop C01 C02 C03
        /// @tier quick
        /// @covers any
        /// @fn chmux::sender::Sender::try_send
        /// @fn chmux::credit::CreditUser::try_request
        /// @fn chmux::credit::AssignedCredits::take
        /// @bounds message length concrete per harness (family: 0, 1, 2, 3, 5 bytes), chunk size 2; credit pool symbolic (full u32); event queue of capacity 3 with a concrete number of slots already occupied (family: 0 = room for every chunk, 2 = fills after the first chunk, 3 = full from the start)
        /// @outside other chunk sizes, messages longer than 5 bytes
        /// the message is split into chunks of at most the advertised chunk size, first/last marked exactly on the first/final chunk, bytes and order preserved, one credit per byte (one for an empty message) deducted and never more than the pool holds; on failure nothing or an unfinished prefix is queued and every credit not put on the wire is back in the pool (no leak)
        #[kani::proof]
        #[kani::unwind(6)]
        #[kani::stub(alloc::fmt::format, empty_format)]
        #[kani::stub(<crate::chmux::PortNumber as std::ops::Drop>::drop, noop_port_number_drop)]
        fn $name() {
            try_send_case($len, $occ);
        }
        }
    )*};
}

try_send_harness! {
    c03_try_send_len0, 0, 0;
    c03_try_send_len1, 1, 0;
    c03_try_send_len2, 2, 0;
    c03_try_send_len3, 3, 0;
    c03_try_send_len5, 5, 0;
    c03_try_send_len0_full, 0, 3;
    c03_try_send_len3_full, 3, 3;
    c03_try_send_len3_fills, 3, 2;
    c03_try_send_len5_fills, 5, 1;
}
