//! C10 / C05 / C08 — port-open resolution kernels of the dispatcher (`chmux/mux.rs`).

use super::util::*;
use crate::chmux::verif::{ExchangedCfg, MultiplexMsg};
use tokio::sync::{mpsc, oneshot};

const P: u32 = 11; // local port that is connecting
const Q: u32 = 12; // local port that is already connected
const QR: u32 = 78; // remote port of Q
const O: u32 = 50; // remote port with an outstanding request

fn any_version() -> u8 {
    let v: u8 = kani::any();
    kani::assume(v == 2 || v == 3);
    v
}

with_lean_model! {
/// @prop C10 C09
/// @tier quick
/// @fn chmux::mux::ChMux::handle_event(ConnectReq)
/// @bounds remote protocol version 2 or 3, remote listener alive or dropped, id and wait flag symbolic; empty port table
/// listener alive: the port is entered as Connecting and exactly one OpenPort{client_port, wait, id iff version >= 3} is emitted, the requester keeps waiting and its sent-notification fires; listener gone: the requester is answered Rejected{no_ports: false}, nothing is emitted and the port number is released
#[kani::proof]
#[kani::unwind(4)]
#[kani::stub(alloc::fmt::format, empty_format)]
fn c10_evt_connect_req() {
    let mut p = MuxParams::fixed();
    p.remote_version = any_version();
    let (mut mux, mut env) = new_mux(&p);
    let listener_dropped: bool = kani::any();
    hx::mux_set_flags(&mut mux, false, false, listener_dropped, false, false, true);
    let alloc = hx::mux_allocator(&mux);
    let pn = hp::allocator_reserve(&alloc, P);
    let (sent_tx, mut sent_rx) = mpsc::channel(1);
    let (response_tx, mut response_rx) = oneshot::channel();
    let id: u32 = kani::any();
    let wait: bool = kani::any();

    let res = step_event!(mux, env, hx::g_connect_req(pn, id, sent_tx, response_tx, wait));
    assert!(res.is_ok());

    // the sent-notification channel is released in both cases (Connect::sent returns)
    assert!(matches!(sent_rx.try_recv(), Err(mpsc::error::TryRecvError::Disconnected)));
    if !listener_dropped {
        assert!(matches!(hx::mux_port_view(&mux, P), hx::PortView::Connecting));
        match sent(&mut env) {
            Some((MultiplexMsg::OpenPort { client_port, wait: w, id: i }, None)) => {
                assert!(client_port == P && w == wait);
                assert!(i == if p.remote_version >= 3 { Some(id) } else { None });
            }
            _ => panic!("OpenPort expected"),
        }
        assert!(sent(&mut env).is_none());
        assert!(matches!(response_rx.try_recv(), Err(oneshot::error::TryRecvError::Empty)));
        assert!(hp::allocator_contains(&alloc, P));
        kani::cover!(p.remote_version == 2, "id withheld from a version-2 peer");
        kani::cover!(p.remote_version == 3, "id sent to a version-3 peer");
    } else {
        assert!(matches!(hx::mux_port_view(&mux, P), hx::PortView::Absent));
        assert!(sent(&mut env).is_none());
        match response_rx.try_recv().map(hcl::connect_response_view) {
            Ok(hcl::ConnectResponseView::Rejected { no_ports }) => assert!(!no_ports),
            other => {
                std::mem::forget(other);
                panic!("Rejected expected")
            }
        }
        assert!(!hp::allocator_contains(&alloc, P));
        kani::cover!(true, "refused locally because the remote listener is gone");
    }
    std::mem::forget((mux, env, alloc, sent_rx, response_rx, res));
}
}

/// Dispatcher with P connecting and Q connected.
fn mux_connecting(p: &MuxParams) -> (Mux, hx::MuxEnv, oneshot::Receiver<hcl::VConnectResponse>, hx::PortEnds) {
    let (mut mux, env) = new_mux(p);
    let pn = hp::allocator_reserve(&hx::mux_allocator(&mux), P);
    let rrx = hx::mux_add_connecting(&mut mux, pn);
    let ends = insert_connected(&mut mux, Q, QR);
    (mux, env, rrx, ends)
}

with_lean_model! {
/// @prop C10 C05
/// @tier quick
/// @fn chmux::mux::ChMux::handle_received_msg(PortOpened)
/// @fn chmux::mux::ChMux::create_port
/// @bounds table with one connecting and one connected port; PortOpened for the connecting port; server port symbolic (full u32); buffer/chunk sizes fixed (symbolic sizes: c10_evt_accepted)
/// the requester is answered exactly once with a sender/receiver pair for (client port, server port); the port becomes Connected with the peer's advertised buffer as send credit and the local buffer as receive limit
#[kani::proof]
#[kani::unwind(4)]
#[kani::stub(alloc::fmt::format, empty_format)]
fn c10_msg_port_opened_resolves() {
    let p = MuxParams::fixed();
    let (mut mux, mut env, mut rrx, ends) = mux_connecting(&p);
    let server_port: u32 = kani::any();

    let res = step_msg!(mux, MultiplexMsg::PortOpened { client_port: P, server_port }, None);
    assert!(res.is_ok());

    match rrx.try_recv().map(hcl::connect_response_view) {
        Ok(hcl::ConnectResponseView::Accepted(tx, rx)) => {
            assert!(tx.local_port() == P && tx.remote_port() == server_port);
            assert!(rx.local_port() == P && rx.remote_port() == server_port);
            assert!(tx.chunk_size() == p.remote_chunk as usize);
            std::mem::forget((tx, rx));
        }
        other => {
            std::mem::forget(other);
            panic!("Accepted expected")
        }
    }
    match hx::mux_port_view(&mux, P) {
        hx::PortView::Connected { remote_port, sender_credits, monitor, remote_sender_finished, receiver_closed, receiver_dropped, sender_dropped, remote_receiver_closed, remote_receiver_dropped, .. } => {
            assert!(remote_port == server_port);
            assert!(sender_credits.0 == p.remote_buffer && sender_credits.1.is_none());
            assert!(monitor == (0, p.local_buffer));
            assert!(!remote_sender_finished && !receiver_closed && !receiver_dropped && !sender_dropped && !remote_receiver_closed && !remote_receiver_dropped);
        }
        _ => panic!("port must be connected"),
    }
    assert!(sent(&mut env).is_none());
    // two helper tasks (sender-dropped and receiver-dropped notifications) were spawned
    assert!(tokio::model::spawned_count() == 2);
    kani::cover!(true, "resolved");
    tokio::model::forget_tasks();
    std::mem::forget((mux, env, rrx, ends, res));
}
}

fn wrong_resolution_case(target: u32, opened: bool) {
    let (mut mux, mut env, mut rrx, ends) = mux_connecting(&MuxParams::fixed());
    let msg = if opened {
        MultiplexMsg::PortOpened { client_port: target, server_port: kani::any() }
    } else {
        MultiplexMsg::Rejected { client_port: target, no_ports: kani::any() }
    };
    let res = step_msg!(mux, msg, None);
    assert!(matches!(&res, Err(e) if is_protocol(e)));
    assert!(matches!(rrx.try_recv(), Err(oneshot::error::TryRecvError::Empty)));
    assert!(matches!(hx::mux_port_view(&mux, P), hx::PortView::Connecting));
    assert!(sent(&mut env).is_none());
    kani::cover!(true, "rejected");
    std::mem::forget((mux, env, rrx, ends, res));
}

macro_rules! wrong_resolution_harness {
    ($($name:ident, $target:expr, $opened:expr;)*) => {$(
        with_lean_model! {
        /// @prop C10 C08
        /// @tier quick
        /// @fn chmux::mux::ChMux::handle_received_msg(PortOpened | Rejected)
        /// @bounds table with one connecting and one connected port; family: PortOpened / Rejected naming the connected port or an unknown port; remaining fields symbolic
        /// a resolution for a port that is not connecting (duplicate, connected or unknown) is a Protocol error, resolves nobody and never panics
        #[kani::proof]
        #[kani::unwind(4)]
        #[kani::stub(alloc::fmt::format, empty_format)]
        fn $name() {
            wrong_resolution_case($target, $opened);
        }
        }
    )*};
}

wrong_resolution_harness! {
    c10_msg_port_opened_for_connected_port, Q, true;
    c10_msg_port_opened_for_unknown_port, 13, true;
    c10_msg_rejected_for_connected_port, Q, false;
    c10_msg_rejected_for_unknown_port, 13, false;
}

with_lean_model! {
/// @prop C10
/// @tier quick
/// @fn chmux::mux::ChMux::handle_received_msg(Rejected)
/// @bounds table with one connecting and one connected port; Rejected for the connecting port, reason flag symbolic
/// the requester is answered exactly once with the true reason, the entry is removed and the port number released
#[kani::proof]
#[kani::unwind(4)]
#[kani::stub(alloc::fmt::format, empty_format)]
fn c10_msg_rejected_resolves() {
    let (mut mux, mut env, mut rrx, ends) = mux_connecting(&MuxParams::fixed());
    let no_ports: bool = kani::any();
    let alloc = hx::mux_allocator(&mux);
    let res = step_msg!(mux, MultiplexMsg::Rejected { client_port: P, no_ports }, None);
    assert!(res.is_ok());
    match rrx.try_recv().map(hcl::connect_response_view) {
        Ok(hcl::ConnectResponseView::Rejected { no_ports: n }) => assert!(n == no_ports),
        other => {
            std::mem::forget(other);
            panic!("Rejected expected")
        }
    }
    assert!(matches!(hx::mux_port_view(&mux, P), hx::PortView::Absent));
    assert!(!hp::allocator_contains(&alloc, P));
    assert!(sent(&mut env).is_none());
    // a second answer for the same port is a protocol error (exactly once)
    let again = step_msg!(mux, MultiplexMsg::Rejected { client_port: P, no_ports }, None);
    assert!(matches!(&again, Err(e) if is_protocol(e)));
    kani::cover!(no_ports, "remote ports exhausted reported");
    std::mem::forget((mux, env, rrx, ends, res, again, alloc));
}
}

/// `client_port`: O (already outstanding) or a new port; `occupied`: slots of the addressed listener queue in use.
/// `wait` is concrete per harness: it selects the listener queue the request goes to.
fn open_port_case(client_port: u32, occupied: u8, wait: bool) {
    let (mut mux, mut env) = new_mux(&MuxParams::fixed());
    assert!(hx::mux_add_outstanding(&mut mux, O));
    let id: Option<u32> = kani::any();
    if occupied >= 1 {
        assert!(hx::mux_listen_fill(&mux, wait));
    }
    if occupied >= 2 {
        assert!(hx::mux_listen_fill(&mux, wait));
    }

    let res = step_msg!(mux, MultiplexMsg::OpenPort { client_port, wait, id }, None);

    assert!(sent(&mut env).is_none());
    if client_port == O {
        assert!(matches!(&res, Err(e) if is_protocol(e)));
    } else if occupied == 2 {
        assert!(matches!(&res, Err(e) if is_protocol(e)));
    } else {
        assert!(res.is_ok());
        assert!(hx::mux_is_outstanding(&mux, client_port));
        assert!(hx::mux_is_outstanding(&mux, O));
        // the other queue stays empty, the addressed queue holds the fillers and then the request
        let (this_q, other_q) = if wait {
            (&mut env.listen_wait_rx, &mut env.listen_no_wait_rx)
        } else {
            (&mut env.listen_no_wait_rx, &mut env.listen_wait_rx)
        };
        assert!(other_q.try_recv().is_err());
        let mut k = 0;
        while k < occupied {
            assert!(matches!(this_q.try_recv().map(hl::remote_connect_view), Ok(None)));
            k += 1;
        }
        match this_q.try_recv().map(hl::remote_connect_view) {
            Ok(Some(req)) => {
                assert!(req.remote_port() == client_port);
                assert!(req.id() == match id { Some(i) => i, None => client_port });
                assert!(req.is_wait() == wait);
                std::mem::forget(req);
            }
            other => {
                std::mem::forget(other);
                panic!("request expected in the listener queue")
            }
        }
        assert!(this_q.try_recv().is_err());
    }
    kani::cover!(true, "reached");
    tokio::model::forget_tasks();
    std::mem::forget((mux, env, res));
}

macro_rules! open_port_harness {
    ($($name:ident, $cp:expr, $occ:expr, $wait:expr;)*) => {$(
        with_lean_model! {
        /// @prop C10 C08 C07
        /// @tier quick
        /// @fn chmux::mux::ChMux::handle_received_msg(OpenPort)
        /// @fn chmux::listener::Request::new
        /// @bounds one outstanding remote request; family: OpenPort for the same port / for a new port with 0, 1, 2 occupied slots in the addressed listener queue (local connect queue 1, listener queues hold 2; the peer's connect queue is 3), each for the wait and the no-wait queue; optional id symbolic
        /// a repeated client port or an over-full request queue is a Protocol error; otherwise exactly one request with (remote port, id or port, wait) is queued for the listener in the queue selected by the wait flag, behind what was queued before, and the port is recorded as outstanding
        #[kani::proof]
        #[kani::unwind(4)]
        #[kani::stub(alloc::fmt::format, empty_format)]
        fn $name() {
            open_port_case($cp, $occ, $wait);
        }
        }
    )*};
}

open_port_harness! {
    c10_msg_open_port_duplicate, O, 0, true;
    c10_msg_open_port_q0, 51, 0, true;
    c10_msg_open_port_q0_nowait, 51, 0, false;
    c10_msg_open_port_q1, 51, 1, true;
    c10_msg_open_port_q1_nowait, 51, 1, false;
    c10_msg_open_port_q2_overfull, 51, 2, true;
    c10_msg_open_port_q2_overfull_nowait, 51, 2, false;
}

fn open_port_listener_gone_case(wait: bool) {
    let (mut mux, mut env) = new_mux(&MuxParams::fixed());
    hx::mux_set_flags(&mut mux, false, false, false, false, false, false);
    let client_port: u32 = kani::any();
    let res = step_msg!(mux, MultiplexMsg::OpenPort { client_port, wait, id: kani::any() }, None);
    assert!(res.is_ok());
    assert!(hx::mux_is_outstanding(&mux, client_port));
    assert!(sent(&mut env).is_none());
    // the request nobody can accept was created (its helper task exists) and dropped right away; the helper
    // task then sends the Rejected event (running it needs a `dyn Future` poll that CBMC resolves to every
    // spawned coroutine of the crate: 2.1 M steps, no verdict - it is not run here)
    assert!(tokio::model::spawned_count() == 1);
    assert!(matches!(pop_evt(hx::mux_channel_rx(&mut mux)), Evt::Empty));
    kani::cover!(true, "dropped request rejects itself");
    std::mem::forget((mux, env, res));
}

macro_rules! open_port_listener_gone_harness {
    ($($name:ident, $wait:expr;)*) => {$(
        with_lean_model! {
        /// @prop C10 C07
        /// @tier quick
        /// @fn chmux::mux::ChMux::handle_received_msg(OpenPort)
        /// @fn chmux::listener::Request::new
        /// @bounds local listener dropped; OpenPort with symbolic port and id, wait flag per harness
        /// @outside running the request's helper task (it emits the Rejected event once the request is dropped) and the dispatcher's handling of that event (decided by c10_evt_rejected)
        /// a request nobody can accept is recorded as outstanding and a Request object with its self-rejecting helper task is still created and dropped (so the peer gets an answer); nothing is sent or queued by the step itself
        #[kani::proof]
        #[kani::unwind(4)]
        #[kani::stub(alloc::fmt::format, empty_format)]
        fn $name() {
            open_port_listener_gone_case($wait);
        }
        }
    )*};
}

open_port_listener_gone_harness! {
    c10_msg_open_port_listener_gone, true;
    c10_msg_open_port_listener_gone_nowait, false;
}

with_lean_model! {
/// @prop C10 C05 C02 C08
/// @tier quick
/// @fn chmux::mux::ChMux::handle_event(Accepted)
/// @fn chmux::mux::ChMux::create_port
/// @bounds one outstanding remote request O (plus the remote port number itself symbolic), accepted on local port P; both endpoints' buffer sizes symbolic
/// emits exactly one PortOpened{client_port: O, server_port: P}, forgets the outstanding request, connects P to O and hands the accepting side a sender/receiver pair for exactly (P, O); the new port sends against the peer's advertised receive buffer and chunk size and polices receiving with the locally advertised buffer
#[kani::proof]
#[kani::unwind(4)]
#[kani::stub(alloc::fmt::format, empty_format)]
fn c10_evt_accepted() {
    let p = MuxParams::any();
    let (mut mux, mut env) = new_mux(&p);
    let o: u32 = kani::any();
    assert!(hx::mux_add_outstanding(&mut mux, o));
    let pn = hp::allocator_reserve(&hx::mux_allocator(&mux), P);
    let (port_tx, mut port_rx) = oneshot::channel();
    let evt = hx::port_evt(hx::PortEvtView::Accepted { local_port: pn, remote_port: o, port_tx });

    let res = step_event!(mux, env, hx::g_port(evt));
    assert!(res.is_ok());

    match sent(&mut env) {
        Some((MultiplexMsg::PortOpened { client_port, server_port }, None)) => {
            assert!(client_port == o && server_port == P)
        }
        _ => panic!("PortOpened expected"),
    }
    assert!(sent(&mut env).is_none());
    assert!(!hx::mux_is_outstanding(&mux, o));
    match port_rx.try_recv() {
        Ok((tx, rx)) => {
            assert!(tx.local_port() == P && tx.remote_port() == o);
            assert!(rx.local_port() == P && rx.remote_port() == o);
            // the sender is bound by what the PEER advertised (its chunk size), never by the local settings
            assert!(tx.chunk_size() == p.remote_chunk as usize);
            std::mem::forget((tx, rx));
        }
        Err(_) => panic!("accepting side must receive its port pair"),
    }
    match hx::mux_port_view(&mux, P) {
        hx::PortView::Connected { remote_port, sender_credits, monitor, .. } => {
            assert!(remote_port == o);
            // sending starts with exactly the buffer the peer advertised; receiving is policed with
            // exactly the buffer this endpoint advertised (all four sizes are symbolic and independent)
            assert!(sender_credits.0 == p.remote_buffer);
            assert!(monitor == (0, p.local_buffer));
        }
        _ => panic!("port must be connected"),
    }
    kani::cover!(true, "accepted");
    tokio::model::forget_tasks();
    std::mem::forget((mux, env, port_rx, res));
}
}

with_lean_model! {
/// @prop C10
/// @tier quick
/// @fn chmux::mux::ChMux::handle_event(Rejected)
/// @bounds one outstanding remote request with symbolic port; reason flag symbolic
/// emits exactly one Rejected{client_port, no_ports} with the true reason and forgets the outstanding request
#[kani::proof]
#[kani::unwind(4)]
#[kani::stub(alloc::fmt::format, empty_format)]
fn c10_evt_rejected() {
    let (mut mux, mut env) = new_mux(&MuxParams::fixed());
    let o: u32 = kani::any();
    let no_ports: bool = kani::any();
    assert!(hx::mux_add_outstanding(&mut mux, o));
    let evt = hx::port_evt(hx::PortEvtView::Rejected { remote_port: o, no_ports });
    let res = step_event!(mux, env, hx::g_port(evt));
    assert!(res.is_ok());
    match sent(&mut env) {
        Some((MultiplexMsg::Rejected { client_port, no_ports: n }, None)) => assert!(client_port == o && n == no_ports),
        _ => panic!("Rejected frame expected"),
    }
    assert!(sent(&mut env).is_none());
    assert!(!hx::mux_is_outstanding(&mux, o));
    kani::cover!(no_ports, "local ports exhausted reported");
    std::mem::forget((mux, env, res));
}
}
