//! C13 / C14 — observable deque and its mirror (`robs/vec_deque.rs`): one mutator of the real
//! `ObservableVecDeque`; the events it hands to `robs::send_event` (captured by the cfg(remoc_verif)
//! hook in emission order, instead of being broadcast) are applied with the real
//! `MirroredVecDequeInner::handle_event`; afterwards mirror == collection.

use super::util::*;
use crate::robs::vec_deque::{verif_hooks::VMirror, ObservableVecDeque, VecDequeEvent};
use crate::robs::RecvError;
use std::collections::VecDeque;

const MAXLEN: usize = 3;

/// Contents of the given (concrete) length with symbolic elements (see c13_vec.rs for why the
/// length is concrete and indices are case-split).
fn any_deque(n: usize) -> VecDeque<u8> {
    assert!(n <= MAXLEN);
    let e: [u8; MAXLEN] = kani::any();
    let mut v = VecDeque::with_capacity(8);
    let mut i = 0;
    while i < MAXLEN {
        if i < n {
            v.push_back(e[i]);
        }
        i += 1;
    }
    v
}

fn same(a: &VecDeque<u8>, b: &VecDeque<u8>) -> bool {
    if a.len() != b.len() {
        return false;
    }
    let mut i = 0;
    while i < a.len() {
        if a[i] != b[i] {
            return false;
        }
        i += 1;
    }
    true
}

fn drain(mirror: &mut VMirror<u8>) -> usize {
    let evts: Vec<VecDequeEvent<u8>> = crate::robs::verif_hooks::take_events();
    let n = evts.len();
    for evt in evts {
        assert!(mirror.handle_event(evt).is_ok());
    }
    n
}

macro_rules! concrete_index {
    ($i:expr, $c:ident => $body:expr) => {
        match $i {
            0 => { let $c: usize = 0; $body }
            1 => { let $c: usize = 1; $body }
            2 => { let $c: usize = 2; $body }
            3 => { let $c: usize = 3; $body }
            _ => { let $c: usize = 4; $body }
        }
    };
}

#[derive(Clone, Copy, PartialEq, Eq)]
pub enum Op {
    PushBack,
    PushFront,
    PopBack,
    PopFront,
    Insert,
    Remove,
    SwapRemoveBack,
    SwapRemoveFront,
    GetMutWrite,
    IterMutWrite,
    Resize,
    Truncate,
    Clear,
    /// keep element number k iff bit k of the mask is set (concrete per harness: a symbolic predicate makes
    /// every element move of `retain` conditional and symex does not finish)
    Retain(u8),
    ShrinkToFit,
    Done,
}

/// `idx`: see `c13_vec::vec_step_case`.
fn deque_step_case(op: Op, n: usize, idx: Option<usize>) {
    let v0 = any_deque(n);
    let len0 = v0.len();
    let first0 = if len0 > 0 { Some(v0[0]) } else { None };
    let last0 = if len0 > 0 { Some(v0[len0 - 1]) } else { None };
    let mut ov: ObservableVecDeque<u8> = ObservableVecDeque::from(v0.clone());
    let mut mirror = VMirror::new(v0, true, false, 16);
    crate::robs::verif_hooks::set_capture(true);

    let x: u8 = kani::any();
    let i: usize = match idx {
        Some(c) => c,
        None => kani::any(),
    };
    kani::assume(i <= MAXLEN + 1);
    match op {
        Op::PushBack => {
            ov.push_back(x);
            assert!(ov.len() == len0 + 1 && ov[len0] == x);
        }
        Op::PushFront => {
            ov.push_front(x);
            assert!(ov.len() == len0 + 1 && ov[0] == x);
        }
        Op::PopBack => {
            let r = ov.pop_back();
            assert!(r == last0);
            assert!(ov.len() == len0.saturating_sub(1));
        }
        Op::PopFront => {
            let r = ov.pop_front();
            assert!(r == first0);
            assert!(ov.len() == len0.saturating_sub(1));
        }
        Op::Insert => {
            kani::assume(i <= len0); // documented panic otherwise
            concrete_index!(i, c => ov.insert(c, x));
            assert!(ov.len() == len0 + 1 && ov[i] == x);
        }
        Op::Remove => {
            // out-of-range indices are allowed here: they return None and must change nothing
            let r = concrete_index!(i, c => ov.remove(c));
            assert!(r.is_some() == (i < len0));
            assert!(ov.len() == if i < len0 { len0 - 1 } else { len0 });
        }
        Op::SwapRemoveBack => {
            let r = concrete_index!(i, c => ov.swap_remove_back(c));
            assert!(r.is_some() == (i < len0));
            assert!(ov.len() == if i < len0 { len0 - 1 } else { len0 });
        }
        Op::SwapRemoveFront => {
            let r = concrete_index!(i, c => ov.swap_remove_front(c));
            assert!(r.is_some() == (i < len0));
            assert!(ov.len() == if i < len0 { len0 - 1 } else { len0 });
        }
        Op::GetMutWrite => match concrete_index!(i, c => ov.get_mut(c)) {
            Some(mut r) => {
                assert!(i < len0);
                *r = x;
            }
            None => assert!(i >= len0),
        },
        Op::IterMutWrite => {
            kani::assume(i < len0);
            let mut pos = 0;
            for mut r in ov.iter_mut() {
                if pos == i {
                    *r = x;
                }
                pos += 1;
            }
            assert!(pos == len0);
            assert!(ov[i] == x);
        }
        Op::Resize => {
            concrete_index!(i, c => ov.resize(c, x));
            assert!(ov.len() == i);
        }
        Op::Truncate => {
            concrete_index!(i, c => ov.truncate(c));
            assert!(ov.len() == if i < len0 { i } else { len0 });
        }
        Op::Clear => {
            ov.clear();
            assert!(ov.len() == 0);
        }
        Op::Retain(mask) => {
            let mut pos = 0u8;
            ov.retain(|_| {
                let keep = (mask >> pos) & 1 == 1;
                pos += 1;
                keep
            });
            let mut kept = 0;
            let mut k = 0;
            while k < len0 {
                if (mask >> k) & 1 == 1 {
                    kept += 1;
                }
                k += 1;
            }
            assert!(ov.len() == kept);
        }
        Op::ShrinkToFit => ov.shrink_to_fit(),
        Op::Done => ov.done(),
    }

    let applied = drain(&mut mirror);
    assert!(same(mirror.contents(), &ov));
    assert!(mirror.flags().1 == ov.is_done());
    assert!(ov.is_done() == (op == Op::Done));
    kani::cover!(applied >= 1, "an event was emitted and applied");
    kani::cover!(applied == 0, "no-op: nothing emitted, mirror untouched");
    std::mem::forget((ov, mirror));
}

macro_rules! deque_step_harness {
    ($($name:ident, $op:expr, $n:expr, $idx:expr;)*) => {$(
        with_lean_model! {
        /// @prop C13
        /// @tier quick
        /// @covers any
        /// @fn robs::vec_deque::ObservableVecDeque::{push_back,push_front,pop_back,pop_front,insert,remove,swap_remove_back,swap_remove_front,get_mut,iter_mut,resize,truncate,clear,retain,shrink_to_fit,done}
        /// @fn robs::vec_deque::RefMut::drop
        /// @fn robs::send_event
        /// @fn robs::vec_deque::MirroredVecDequeInner::handle_event
        /// @bounds one mutator and one initial length (0..=3, see harness name) per harness, symbolic u8 elements; index / new length / value / retain-predicate arguments symbolic (indices 0..=4, i.e. also out of range where the API allows it); the mirror starts equal to the contents (snapshot subscription)
        /// @outside deques longer than 3 before the step; ring buffers that wrapped around before the step; the event transport (rch::broadcast / rch::mpsc / codecs / mirror task), incremental subscriptions and remote mirrors
        /// after the mirror has processed exactly the events the mutator emitted it holds exactly the deque's contents and reports done iff done() was called; operations on out-of-range indices change neither
        #[kani::proof]
        #[kani::unwind(6)]
        #[kani::stub(alloc::fmt::format, empty_format)]
        fn $name() {
            deque_step_case($op, $n, $idx);
        }
        }
    )*};
}

deque_step_harness! {
    c13_deque_push_back_n2, Op::PushBack, 2, None;
    c13_deque_push_front_n0, Op::PushFront, 0, None;
    c13_deque_push_front_n2, Op::PushFront, 2, None;
    c13_deque_pop_back_n0, Op::PopBack, 0, None;
    c13_deque_pop_back_n3, Op::PopBack, 3, None;
    c13_deque_pop_front_n1, Op::PopFront, 1, None;
    c13_deque_pop_front_n3, Op::PopFront, 3, None;
    c13_deque_insert_n0, Op::Insert, 0, None;
    c13_deque_insert_n3_i0, Op::Insert, 3, Some(0);
    c13_deque_insert_n3_i1, Op::Insert, 3, Some(1);
    c13_deque_insert_n3_i3, Op::Insert, 3, Some(3);
    c13_deque_remove_n3_i0, Op::Remove, 3, Some(0);
    c13_deque_remove_n3_i1, Op::Remove, 3, Some(1);
    c13_deque_remove_n3_i3, Op::Remove, 3, Some(3);
    c13_deque_swap_remove_back_n3_i0, Op::SwapRemoveBack, 3, Some(0);
    c13_deque_swap_remove_back_n3_i2, Op::SwapRemoveBack, 3, Some(2);
    c13_deque_swap_remove_back_n3_i3, Op::SwapRemoveBack, 3, Some(3);
    c13_deque_swap_remove_front_n3_i0, Op::SwapRemoveFront, 3, Some(0);
    c13_deque_swap_remove_front_n3_i2, Op::SwapRemoveFront, 3, Some(2);
    c13_deque_swap_remove_front_n3_i3, Op::SwapRemoveFront, 3, Some(3);
    c13_deque_get_mut_write_n3_i0, Op::GetMutWrite, 3, Some(0);
    c13_deque_get_mut_write_n3_i2, Op::GetMutWrite, 3, Some(2);
    c13_deque_get_mut_write_n3_i3, Op::GetMutWrite, 3, Some(3);
    c13_deque_iter_mut_write_n3_i0, Op::IterMutWrite, 3, Some(0);
    c13_deque_iter_mut_write_n3_i2, Op::IterMutWrite, 3, Some(2);
    c13_deque_resize_n2_i0, Op::Resize, 2, Some(0);
    c13_deque_resize_n2_i2, Op::Resize, 2, Some(2);
    c13_deque_resize_n2_i4, Op::Resize, 2, Some(4);
    c13_deque_truncate_n2_i0, Op::Truncate, 2, Some(0);
    c13_deque_truncate_n2_i1, Op::Truncate, 2, Some(1);
    c13_deque_truncate_n2_i2, Op::Truncate, 2, Some(2);
    c13_deque_truncate_n2_i3, Op::Truncate, 2, Some(3);
    c13_deque_clear_n2, Op::Clear, 2, None;
    c13_deque_retain_n3_m0, Op::Retain(0), 3, None;
    c13_deque_retain_n3_m1, Op::Retain(1), 3, None;
    c13_deque_retain_n3_m2, Op::Retain(2), 3, None;
    c13_deque_retain_n3_m4, Op::Retain(4), 3, None;
    c13_deque_retain_n3_m5, Op::Retain(5), 3, None;
    c13_deque_retain_n3_m6, Op::Retain(6), 3, None;
    c13_deque_retain_n3_m7, Op::Retain(7), 3, None;
    c13_deque_shrink_to_fit_n1, Op::ShrinkToFit, 1, None;
    c13_deque_done_n1, Op::Done, 1, None;
}

// ---------------------------------------------------------------------------
// C14: events that do not apply are reported, never silently mis-applied

/// `kind`: 0 Insert, 1 Set, 2 Remove, 3 SwapRemoveBack, 4 SwapRemoveFront, 5 PushBack at the size limit,
/// 6 PushFront at the size limit
fn deque_mirror_reject_case(kind: u8, n: usize) {
    let v0 = any_deque(n);
    let len0 = v0.len();
    let before = v0.clone();
    let max_size: usize = if kind >= 5 { len0 } else { 16 };
    let mut mirror = VMirror::new(v0, true, false, max_size);
    let i: usize = kani::any();
    kani::assume(i <= MAXLEN + 1);
    let x: u8 = kani::any();
    let evt = concrete_index!(i, c => match kind {
        0 => VecDequeEvent::Insert(c, x),
        1 => VecDequeEvent::Set(c, x),
        2 => VecDequeEvent::Remove(c),
        3 => VecDequeEvent::SwapRemoveBack(c),
        4 => VecDequeEvent::SwapRemoveFront(c),
        5 => VecDequeEvent::PushBack(x),
        _ => VecDequeEvent::PushFront(x),
    });
    let res = mirror.handle_event(evt);
    let applies = match kind {
        0 => i <= len0,
        5 | 6 => false,
        _ => i < len0,
    };
    if applies {
        assert!(res.is_ok());
        // the applied event has the effect of the operation it stands for
        match kind {
            0 => assert!(mirror.contents().len() == len0 + 1 && mirror.contents()[i] == x),
            1 => assert!(mirror.contents().len() == len0 && mirror.contents()[i] == x),
            _ => assert!(mirror.contents().len() == len0 - 1),
        }
        kani::cover!(true, "applicable event applied");
    } else {
        match (kind, &res) {
            (5 | 6, Err(RecvError::MaxSizeExceeded(m))) => assert!(*m == max_size),
            (0..=4, Err(RecvError::InvalidIndex(j))) => {
                assert!(*j == i);
                assert!(same(mirror.contents(), &before));
            }
            _ => panic!("an event that does not apply must be reported with its documented error"),
        }
        kani::cover!(true, "inapplicable event reported");
    }
    std::mem::forget((mirror, before, res));
}

macro_rules! deque_reject_harness {
    ($($name:ident, $kind:expr, $n:expr;)*) => {$(
        /// @prop C14 C13
        /// @tier quick
        /// @covers any
        /// @fn robs::vec_deque::MirroredVecDequeInner::handle_event
        /// @bounds mirror contents of length 2 (symbolic u8 elements); one event kind per harness (Insert, Set, Remove, SwapRemoveBack, SwapRemoveFront with index 0..=4; PushBack / PushFront at the size limit)
        /// @outside indices above 4 (the checks are plain comparisons with the length); the mirror task that stores the error and stops applying events; lag / drop-before-done / connection errors (channel layer)
        /// an index event is applied iff its index is valid for the current contents (Insert: index <= len, others: index < len) and then has the effect of the operation it stands for; otherwise InvalidIndex(index) is returned and the contents are untouched; a push beyond max_size yields MaxSizeExceeded(max_size); nothing panics
        #[kani::proof]
        #[kani::unwind(6)]
        #[kani::stub(alloc::fmt::format, empty_format)]
        fn $name() {
            deque_mirror_reject_case($kind, $n);
        }
    )*};
}

deque_reject_harness! {
    c14_deque_mirror_insert_index, 0, 2;
    c14_deque_mirror_set_index, 1, 2;
    c14_deque_mirror_remove_index, 2, 2;
    c14_deque_mirror_swap_remove_back_index, 3, 2;
    c14_deque_mirror_swap_remove_front_index, 4, 2;
    c14_deque_mirror_push_back_max_size, 5, 2;
    c14_deque_mirror_push_front_max_size, 6, 2;
}
