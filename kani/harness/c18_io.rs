//! C18 — I/O channel accounting kernels (`rch/io/receiver.rs`, `rch/io/sender.rs`):
//! `Receiver::poll_read` on buffered data and at end of data, `Sender::poll_shutdown` size check.

use super::util::*;
use crate::rch::io::verif::{receiver as hir, sender as his};
use bytes::Bytes;
use std::pin::Pin;
use std::task::{Context, Poll};
use tokio::io::{AsyncRead, AsyncWrite, ReadBuf};

type Rx = crate::rch::io::Receiver<crate::codec::Default>;
type Tx = crate::rch::io::Sender<crate::codec::Default>;

static SEG0: [u8; 3] = [0xA0, 0xA1, 0xA2];
static SEG1: [u8; 2] = [0xB0, 0xB1];

/// One `poll_read` while a received message is buffered as two segments (3 + 2 bytes; a message is
/// split into segments when it was transmitted in several chunks).  `room`: space in the caller's
/// read buffer (concrete per harness); size accounting symbolic.
fn read_buffered_case(room: usize) {
    let sized: bool = kani::any();
    let bytes_read: u64 = kani::any();
    let expected: u64 = kani::any();
    kani::assume(bytes_read <= expected && expected <= u64::MAX - 8);
    let mut chunks = Vec::with_capacity(4);
    chunks.push(Bytes::from_static(&SEG0));
    chunks.push(Bytes::from_static(&SEG1));
    let data = hr::data_buf_from_chunks(chunks);
    let mut rx: Rx = hir::receiver_from_parts(if sized { Some(expected) } else { None }, bytes_read, Some(data));
    // without size information the receiver has nothing to compare against: only the sized mode is
    // meaningful with a closed channel, keep `sized` symbolic for the buffered-data path only
    let mut storage = [0u8; 8];
    let mut buf = ReadBuf::new(&mut storage[..room]);
    let waker = tokio::model::noop_waker();
    let mut cx = Context::from_waker(&waker);

    let res = Pin::new(&mut rx).poll_read(&mut cx, &mut buf);

    let (read_now, buffered, eof) = hir::receiver_state(&rx);
    let allowed: u64 = if sized { expected - bytes_read } else { u64::MAX };
    if sized && allowed == 0 {
        // the announced size has been delivered: end of file, nothing more is handed out
        assert!(matches!(res, Poll::Ready(Ok(()))));
        assert!(buf.filled().len() == 0 && read_now == bytes_read && eof);
        kani::cover!(true, "end of file at the announced size");
    } else {
        // exactly min(first segment, room, remaining announced size) bytes are delivered, in order
        let mut n = SEG0.len();
        if room < n {
            n = room;
        }
        if (n as u64) > allowed {
            n = allowed as usize;
        }
        assert!(matches!(res, Poll::Ready(Ok(()))));
        assert!(buf.filled().len() == n);
        let mut k = 0;
        while k < n {
            assert!(buf.filled()[k] == SEG0[k]);
            k += 1;
        }
        assert!(read_now == bytes_read + n as u64);
        // nothing that was received is dropped: the rest of the message stays buffered
        assert!(buffered == Some(SEG0.len() + SEG1.len() - n));
        assert!(!eof);
        kani::cover!(n == SEG0.len(), "first segment consumed completely, second one kept");
        kani::cover!(n < SEG0.len(), "partial read");
    }
    std::mem::forget((rx, res));
}

macro_rules! read_buffered_harness {
    ($($name:ident, $room:expr;)*) => {$(
        with_lean_model! {
        /// @prop C18
        /// @tier quick
        /// @covers any
        /// @fn rch::io::receiver::Receiver::poll_read
        /// @fn chmux::receiver::DataBuf::{chunk,advance,remaining}
        /// @bounds a received message buffered as two segments (3 + 2 bytes); read buffer room concrete per harness (1, 3, 8); sized/unsized mode, bytes already read and announced size symbolic (full u64)
        /// @outside receiving further messages (boxed future over rch::bin / chmux), the size announcement of unsized channels (oneshot), remote halves
        /// a read delivers exactly min(first segment, room, remaining announced size) bytes, the bytes are the buffered ones in order, the read counter advances by exactly that amount, the rest of the received message stays buffered (nothing is skipped), and once the announced size is reached end of file is reported without delivering more
        #[kani::proof]
        #[kani::unwind(6)]
        #[kani::stub(alloc::fmt::format, empty_format)]
        fn $name() {
            read_buffered_case($room);
        }
        }
    )*};
}

read_buffered_harness! {
    c18_read_buffered_room1, 1;
    c18_read_buffered_room3, 3;
    c18_read_buffered_room8, 8;
}

with_lean_model! {
/// @prop C18
/// @tier quick
/// @fn rch::io::receiver::Receiver::poll_read
/// @fn rch::io::receiver::Receiver::start_eof_verification
/// @bounds sized channel whose sender has ended (no further data), nothing buffered; bytes read and announced size symbolic (full u64)
/// @outside unsized channels (size arrives over a oneshot channel)
/// end of data on a sized channel is a successful end of file iff exactly the announced number of bytes was read; a short stream is an UnexpectedEof error, never a silent truncation
#[kani::proof]
#[kani::unwind(4)]
#[kani::stub(alloc::fmt::format, empty_format)]
fn c18_read_end_of_data_sized() {
    let bytes_read: u64 = kani::any();
    let expected: u64 = kani::any();
    let mut rx: Rx = hir::receiver_from_parts(Some(expected), bytes_read, None);
    let mut storage = [0u8; 4];
    let mut buf = ReadBuf::new(&mut storage[..]);
    let waker = tokio::model::noop_waker();
    let mut cx = Context::from_waker(&waker);

    let res = Pin::new(&mut rx).poll_read(&mut cx, &mut buf);

    assert!(buf.filled().len() == 0);
    match &res {
        Poll::Ready(Ok(())) => {
            assert!(bytes_read >= expected);
            // (bytes_read > expected cannot arise: poll_read never delivers past the announced size)
            kani::cover!(bytes_read == expected, "complete stream: end of file");
        }
        Poll::Ready(Err(e)) => {
            assert!(bytes_read < expected);
            assert!(e.kind() == std::io::ErrorKind::UnexpectedEof);
            kani::cover!(true, "short stream reported");
        }
        Poll::Pending => panic!("end of data must be decided at once"),
    }
    std::mem::forget((rx, res));
}
}

with_lean_model! {
/// @prop C18
/// @tier quick
/// @fn rch::io::sender::Sender::poll_shutdown
/// @bounds sized sender with nothing pending; bytes written and fixed size symbolic (full u64)
/// @outside unsized senders (size sent over a oneshot channel), pending connect/send operations (boxed futures over rch::bin)
/// shutdown of a sized sender succeeds iff exactly the fixed size was written; otherwise it is an UnexpectedEof error
#[kani::proof]
#[kani::unwind(4)]
#[kani::stub(alloc::fmt::format, empty_format)]
fn c18_shutdown_sized() {
    let written: u64 = kani::any();
    let expected: u64 = kani::any();
    let mut tx: Tx = his::sized_sender_from_parts(expected, written);
    let waker = tokio::model::noop_waker();
    let mut cx = Context::from_waker(&waker);

    let res = Pin::new(&mut tx).poll_shutdown(&mut cx);

    match &res {
        Poll::Ready(Ok(())) => {
            assert!(written == expected);
            kani::cover!(true, "complete stream accepted");
        }
        Poll::Ready(Err(e)) => {
            assert!(written != expected);
            assert!(e.kind() == std::io::ErrorKind::UnexpectedEof);
            kani::cover!(written < expected, "short stream refused");
        }
        Poll::Pending => panic!("nothing is pending"),
    }
    std::mem::forget((tx, res));
}
}
