//! C11 — `Receiver::close` (`chmux/receiver.rs`): the close notification reaches the dispatcher exactly
//! once, and a close that was cancelled while the event queue was full can be retried.

use super::util::*;
use std::task::Poll;

const P: u32 = 11;
const R: u32 = 77;

struct Fix {
    rx: crate::chmux::Receiver,
    evt_rx: tokio::sync::mpsc::Receiver<hx::VPortEvt>,
    evt_tx: tokio::sync::mpsc::Sender<hx::VPortEvt>,
}

fn fixture() -> Fix {
    let (evt_tx, evt_rx) = tokio::sync::mpsc::channel(1);
    let (data_tx, data_rx) = tokio::sync::mpsc::unbounded_channel::<hr::VPortReceiveMsg>();
    let (mon, returner) = hc::monitor_pair(16);
    let rx = hr::receiver_new(P, R, 8, 4, evt_tx.clone(), data_rx, returner, hp::allocator_new(8), hst::storage_new());
    std::mem::forget((data_tx, mon));
    Fix { rx, evt_rx, evt_tx }
}

with_lean_model! {
/// @prop C11
/// @tier quick
/// @fn chmux::receiver::Receiver::close
/// @bounds a receiver whose event queue (capacity 1) has room; close() polled to completion, then called a second time
/// closing tells the dispatcher exactly once (one ReceiverClosed event for exactly this port); a repeated close is a no-op
#[kani::proof]
#[kani::unwind(4)]
#[kani::stub(alloc::fmt::format, empty_format)]
#[kani::stub(<crate::chmux::PortNumber as std::ops::Drop>::drop, noop_port_number_drop)]
fn c11_close_notifies_once() {
    let mut f = fixture();
    let r1 = { let mut slot = Slot::new(f.rx.close()); slot.poll() };
    assert!(r1.is_ready());
    assert!(hr::receiver_flags(&f.rx).0);
    assert!(matches!(pop_evt(&mut f.evt_rx), Evt::ReceiverClosed { local_port: P }));
    assert!(matches!(pop_evt(&mut f.evt_rx), Evt::Empty));
    let r2 = { let mut slot = Slot::new(f.rx.close()); slot.poll() };
    assert!(r2.is_ready());
    assert!(matches!(pop_evt(&mut f.evt_rx), Evt::Empty));
    kani::cover!(true, "closed");
    tokio::model::forget_tasks();
    std::mem::forget(f);
}
}

with_lean_model! {
/// @prop C11 C01
/// @tier quick
/// @fn chmux::receiver::Receiver::close
/// @bounds a receiver whose event queue (capacity 1) is full; close() polled once (pending), cancelled, the queue drained, close() called again
/// a close that is cancelled while waiting for the event queue has told the dispatcher nothing and must not count as done: the retried close delivers the ReceiverClosed event
#[kani::proof]
#[kani::unwind(4)]
#[kani::stub(alloc::fmt::format, empty_format)]
#[kani::stub(<crate::chmux::PortNumber as std::ops::Drop>::drop, noop_port_number_drop)]
fn c11_close_cancelled_can_be_retried() {
    let mut f = fixture();
    let dummy = hx::port_evt(hx::PortEvtView::ReturnCredits { remote_port: 1, credits: 1 });
    assert!(f.evt_tx.try_send(dummy).is_ok());
    {
        let mut slot = Slot::new(f.rx.close());
        assert!(slot.poll().is_pending());
        slot.cancel(); // the caller gives up (timeout / select)
    }
    // nothing was queued for the dispatcher
    assert!(matches!(pop_evt(&mut f.evt_rx), Evt::ReturnCredits { remote_port: 1, credits: 1 }));
    assert!(matches!(pop_evt(&mut f.evt_rx), Evt::Empty));
    // the retry must go through now that there is room
    let r = { let mut slot = Slot::new(f.rx.close()); slot.poll() };
    assert!(r.is_ready());
    assert!(matches!(pop_evt(&mut f.evt_rx), Evt::ReceiverClosed { local_port: P }));
    assert!(hr::receiver_flags(&f.rx).0);
    kani::cover!(true, "retried close delivered");
    tokio::model::forget_tasks();
    std::mem::forget(f);
}
}
