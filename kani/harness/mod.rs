//! Kani proof harnesses over the real remoc source.
//!
//! This tree is compiled *as part of the remoc crate* (hook in remoc/src/lib.rs,
//! `--cfg remoc_verif`), with tokio / tokio-util replaced by the models in
//! /verif/models.  Naming: `<property>_<kernel>_<aspect>`.  Every harness has an
//! explicit unwind bound, a `kani::cover!` reachability witness, and leaks heap
//! objects instead of dropping them.
//!
//! Harness metadata read by the driver (`/verif/driver`): doc-comment lines
//! `/// @prop`, `/// @tier`, `/// @fn`, `/// @bounds`, `/// @outside`.
#![allow(dead_code, unused_imports, unused_variables, unused_mut, missing_docs, clippy::all)]

mod util;

mod c00_probe;
mod c01_data;
mod c01_databuf;
mod c01_reasm;
mod c02_credit;
mod c03_sender;
mod c05_interlock;
mod c07_alloc;
mod c07_new;
mod c07_ports;
mod c09_wire;
mod c10_open;
mod c13_deque;
mod c13_vec;
mod c99_tmp;
mod c18_io;
mod c11_close;
mod c13_list;
mod c04_baseio;
