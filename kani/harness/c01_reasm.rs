//! C01 / C11 / C02 — reassembly on the receiving port (`chmux/receiver.rs`):
//! `Receiver::recv_any`, `Receiver::recv_chunk` driven with frame sequences fed into the
//! receiver's real queue.

use super::util::*;
use crate::chmux::{Received, Receiver, RecvChunkError};
use bytes::Bytes;
use std::task::Poll;

const P: u32 = 11;
const R: u32 = 77;

static CONTENT: [u8; 8] = [0x10, 0x11, 0x20, 0x21, 0x30, 0x31, 0x40, 0x41];

/// Frame `i` carries up to two bytes with frame-specific content.
fn frame_bytes(i: usize, len: usize) -> Bytes {
    Bytes::from_static(&CONTENT).slice(2 * i..2 * i + len)
}

struct RxFix {
    rx: Receiver,
    data_tx: tokio::sync::mpsc::UnboundedSender<hr::VPortReceiveMsg>,
    evt_rx: tokio::sync::mpsc::Receiver<hx::VPortEvt>,
    mon: hc::VMonitor,
}

/// A real `Receiver` whose queue and event channel are owned by the harness.
/// `used` is what the dispatcher would have accounted for the frames that will be fed.
fn new_receiver(max_data_size: usize, limit: u32, used: u32) -> RxFix {
    let (evt_tx, evt_rx) = tokio::sync::mpsc::channel(8);
    let (data_tx, data_rx) = tokio::sync::mpsc::unbounded_channel();
    let (mon, returner) = hc::monitor_pair(limit);
    hc::monitor_set_used(&mon, used);
    let rx = hr::receiver_new(P, R, max_data_size, 4, evt_tx, data_rx, returner, hp::allocator_new(8), hst::storage_new());
    RxFix { rx, data_tx, evt_rx, mon }
}

fn cost(len: usize) -> u32 {
    if len == 0 { 1 } else { len as u32 }
}

/// Sum of all credits handed back to the dispatcher so far (ReturnCredits events) plus what the
/// receiver still holds for a later return.
fn returned_total(f: &mut RxFix) -> u32 {
    let mut total = hr::receiver_returner_state(&f.rx).0;
    loop {
        match pop_evt(&mut f.evt_rx) {
            Evt::ReturnCredits { remote_port, credits } => {
                assert!(remote_port == R);
                total += credits;
            }
            Evt::Empty => break,
            _ => panic!("unexpected event from the receiver"),
        }
    }
    total
}

with_map_model! {
/// @prop C01 C11 C02
/// @tier quick
/// @fn chmux::receiver::Receiver::recv_any
/// @fn chmux::receiver::DataBuf::try_push
/// @fn chmux::credit::ChannelCreditReturner::start_return
/// @bounds 3 data frames with symbolic first/last flags and lengths 0..=2, optionally followed by the end-of-stream marker; max_data_size large enough for any message; recv_any called until it blocks or ends (at most 5 calls)
/// @outside more than 3 frames in the queue; messages above max_data_size (see the chunk harnesses)
/// the messages obtained are exactly the completed first..last runs of the frame sequence, in order, byte for byte; a run cut short by a new `first` yields nothing; frames without a started message are ignored; end-of-stream is reported only after every completed message; credit is returned for exactly the frames consumed
#[kani::proof]
#[kani::unwind(6)]
#[kani::stub(alloc::fmt::format, empty_format)]
#[kani::stub(<crate::chmux::PortNumber as std::ops::Drop>::drop, noop_port_number_drop)]
fn c01_recv_any_reassembly() {
    let first: [bool; 3] = kani::any();
    let last: [bool; 3] = kani::any();
    let len: [usize; 3] = kani::any();
    kani::assume(len[0] <= 2 && len[1] <= 2 && len[2] <= 2);
    let finished: bool = kani::any();
    let total_cost = cost(len[0]) + cost(len[1]) + cost(len[2]);
    let mut f = new_receiver(16, 64, total_cost);
    let mut i = 0;
    while i < 3 {
        assert!(f.data_tx.send(hr::recv_msg_data(frame_bytes(i, len[i]), first[i], last[i], cost(len[i]))).is_ok());
        i += 1;
    }
    if finished {
        assert!(f.data_tx.send(hr::recv_msg_finished()).is_ok());
    }

    // reference reassembly
    let mut exp_bytes = [[0u8; 6]; 3];
    let mut exp_len = [0usize; 3];
    let mut exp_n = 0usize;
    let mut cur = [0u8; 6];
    let mut cur_len = 0usize;
    let mut active = false;
    let mut i = 0;
    while i < 3 {
        if first[i] {
            active = true;
            cur_len = 0;
        }
        if active {
            if len[i] >= 1 {
                cur[cur_len] = CONTENT[2 * i];
                cur_len += 1;
            }
            if len[i] >= 2 {
                cur[cur_len] = CONTENT[2 * i + 1];
                cur_len += 1;
            }
            if last[i] {
                exp_bytes[exp_n] = cur;
                exp_len[exp_n] = cur_len;
                exp_n += 1;
                active = false;
            }
        }
        i += 1;
    }

    // drive the real receiver
    let mut got = 0usize;
    let mut ended = false;
    let mut blocked = false;
    let mut calls = 0;
    while calls < 5 && !ended && !blocked {
        let mut slot = Slot::new(f.rx.recv_any());
        match slot.poll() {
            Poll::Pending => blocked = true,
            Poll::Ready(Ok(None)) => ended = true,
            Poll::Ready(Ok(Some(Received::Data(data)))) => {
                assert!(got < exp_n);
                let bytes = Vec::<u8>::from(data);
                assert!(bytes.len() == exp_len[got]);
                let mut k = 0;
                while k < bytes.len() {
                    assert!(bytes[k] == exp_bytes[got][k]);
                    k += 1;
                }
                got += 1;
                std::mem::forget(bytes);
            }
            Poll::Ready(other) => {
                std::mem::forget(other);
                panic!("unexpected result from recv_any")
            }
        }
        calls += 1;
    }
    // every completed message was delivered before the receiver blocked or reported the end
    assert!(got == exp_n);
    assert!(ended == finished);
    assert!(blocked == !finished);
    // all three frames were consumed and exactly their credit is on its way back
    assert!(returned_total(&mut f) == total_cost);
    assert!(hc::monitor_state(&f.mon).0 == 0);
    kani::cover!(exp_n == 3, "three single-frame messages");
    kani::cover!(exp_n == 1 && exp_len[0] == 6, "one message reassembled from three frames");
    kani::cover!(exp_n == 1 && first[0] && !last[0] && first[1], "cancelled transmission replaced by the next message");
    kani::cover!(exp_n == 0 && finished, "end of stream with only incomplete data");
    tokio::model::forget_tasks();
    std::mem::forget(f);
}
}

// ---------------------------------------------------------------------------
// One-step formulation: one frame arrives while the receiver is in a given assembly state.

static OLD: [u8; 2] = [0xAA, 0xBB];
static NEW: [u8; 3] = [0x11, 0x22, 0x33];

/// `pre`: 0 = nothing buffered, 1 = a message partially buffered (one 2-byte chunk).
/// The frame carries `len` (0..=3) bytes of `NEW`; `max` is the receiver's max_data_size.
/// All of these are concrete per harness (they decide which `Bytes`/`VecDeque` operations run);
/// the credit numbers are symbolic.
fn recv_any_step_case(pre: u8, first: bool, last: bool, len: usize, max: usize) {
    let credit: u32 = kani::any();
    let used0: u32 = kani::any();
    let limit: u32 = kani::any();
    kani::assume(limit >= 4 && credit >= 1 && credit <= used0 && used0 <= limit);
    let (evt_tx, evt_rx) = tokio::sync::mpsc::channel(4);
    let (data_tx, data_rx) = tokio::sync::mpsc::unbounded_channel();
    let (mon, returner) = hc::monitor_pair(limit);
    hc::monitor_set_used(&mon, used0);
    let rx = hr::receiver_new(P, R, max, 4, evt_tx, data_rx, returner, hp::allocator_new(8), hst::storage_new());
    let mut f = RxFix { rx, data_tx, evt_rx, mon };
    if pre == 1 {
        let mut chunks = Vec::with_capacity(4);
        chunks.push(Bytes::from_static(&OLD));
        hr::receiver_set_receiving_data(&mut f.rx, chunks);
    }
    let old_len = if pre == 1 { 2 } else { 0 };
    assert!(f.data_tx.send(hr::recv_msg_data(Bytes::from_static(&NEW).slice(0..len), first, last, credit)).is_ok());

    let res = {
        // the future is leaked by `Slot` (never dropped), its borrow of the receiver ends here
        let mut slot = Slot::new(f.rx.recv_any());
        slot.poll()
    };

    // reference semantics of framing: `first` discards what was buffered; a frame without a started
    // message is ignored; `last` completes; a message larger than max_data_size is handed over for chunk-wise reading
    let active = first || pre == 1;
    let kept_old = if first { 0 } else { old_len };
    let total = kept_old + len;
    let st = hr::receiver_state(&f.rx);
    if !active {
        assert!(res.is_pending());
        assert!(st.0 == 0);
        kani::cover!(true, "frame without a started message ignored");
    } else if total > max {
        assert!(matches!(res, Poll::Ready(Ok(Some(Received::Chunks)))));
        // everything received so far is kept for recv_chunk, in order
        assert!(st.0 == 2 && st.2 == total && st.3 == last);
        kani::cover!(true, "oversized message switched to chunk mode");
    } else if last {
        match res {
            Poll::Ready(Ok(Some(Received::Data(data)))) => {
                assert!(hr::data_buf_remaining(&data) == total);
                let bytes = Vec::<u8>::from(data);
                assert!(bytes.len() == total);
                let mut k = 0;
                while k < kept_old {
                    assert!(bytes[k] == OLD[k]);
                    k += 1;
                }
                let mut k = 0;
                while k < len {
                    assert!(bytes[kept_old + k] == NEW[k]);
                    k += 1;
                }
                std::mem::forget(bytes);
            }
            other => {
                std::mem::forget(other);
                panic!("completed message expected")
            }
        }
        assert!(st.0 == 0);
        kani::cover!(true, "message completed");
    } else {
        assert!(res.is_pending());
        assert!(st.0 == 1 && st.2 == total);
        kani::cover!(true, "message continues");
    }
    // the frame was consumed: exactly its credit left `used` and is on its way back (or held below the threshold)
    assert!(hc::monitor_state(&f.mon).0 == used0 - credit);
    assert!(returned_total(&mut f) == credit);
    tokio::model::forget_tasks();
    std::mem::forget(f);
}

macro_rules! recv_any_step_harness {
    ($($name:ident, $pre:expr, $first:expr, $last:expr, $len:expr, $max:expr;)*) => {$(
        with_lean_model! {
        /// @prop C01 C02 C11
        /// @tier quick
        /// @covers any
        /// @fn chmux::receiver::Receiver::recv_any
        /// @fn chmux::receiver::DataBuf::try_push
        /// @fn chmux::credit::ChannelCreditReturner::start_return
        /// @bounds one frame arriving in a given assembly state; concrete per harness: state (nothing buffered / one 2-byte chunk buffered), first/last flags, frame length 0..=3, max_data_size; symbolic: the frame's credit, the accounted use and the buffer limit (full u32)
        /// @outside more than one buffered chunk; port-request frames and the chunk-streaming state (see the recv_chunk harnesses)
        /// one step of reassembly: `first` discards a partially received predecessor and starts a new message, a frame without a started message is ignored, `last` completes the message with exactly the buffered bytes followed by the frame's bytes (length reported through the Buf API included), a message above max_data_size is handed over for chunk-wise reading with everything received so far; the frame's credit is returned exactly once
        #[kani::proof]
        #[kani::unwind(3)]
        #[kani::stub(alloc::fmt::format, empty_format)]
        #[kani::stub(<crate::chmux::PortNumber as std::ops::Drop>::drop, noop_port_number_drop)]
        fn $name() {
            recv_any_step_case($pre, $first, $last, $len, $max);
        }
        }
    )*};
}

recv_any_step_harness! {
    c01_recv_step_idle_first_last, 0, true, true, 3, 8;
    c01_recv_step_idle_first_last_empty, 0, true, true, 0, 8;
    c01_recv_step_idle_first, 0, true, false, 2, 8;
    c01_recv_step_idle_stray, 0, false, true, 2, 8;
    c01_recv_step_cont_last, 1, false, true, 3, 8;
    c01_recv_step_cont_more, 1, false, false, 1, 8;
    c01_recv_step_restart_last, 1, true, true, 2, 3;
    c01_recv_step_restart_more, 1, true, false, 3, 8;
    c01_recv_step_cont_exceeds, 1, false, true, 3, 4;
    c01_recv_step_cont_exact_fit, 1, false, true, 2, 4;
    c01_recv_step_idle_exceeds, 0, true, false, 3, 2;
}
