//! C02 — flow-control safety, credit-accounting kernels (`chmux/credit.rs`).
//!
//! Conservation law per port direction (B = advertised buffer):
//!   pool + assigned + wire + used + to_return + in_flight_credit_frames = B.
//! Each harness moves one term with the real function from an arbitrary
//! pre-state and checks that exactly that amount moved.

use super::util::*;
use std::convert::Infallible;

/// @prop C02
/// @tier quick
/// @fn chmux::credit::ChannelCreditMonitor::use_credits
/// @bounds used, limit, credits: full u32 (used <= limit)
/// accepts iff used + c <= limit (no wrap); then used' = used + c, else state unchanged + Protocol error
#[kani::proof]
#[kani::unwind(2)]
#[kani::stub(alloc::fmt::format, empty_format)]
fn c02_use_credits_bound() {
    let limit: u32 = kani::any();
    let used: u32 = kani::any();
    let c: u32 = kani::any();
    kani::assume(used <= limit);
    let (mon, ret) = hc::monitor_pair(limit);
    hc::monitor_set_used(&mon, used);

    let res = hc::use_credits::<Infallible, Infallible>(&mon, c);
    let (used2, limit2) = hc::monitor_state(&mon);
    assert!(limit2 == limit);
    let fits = (used as u64) + (c as u64) <= limit as u64;
    match &res {
        Ok(uc) => {
            assert!(fits);
            assert!(hc::used_credit_value(uc) == c);
            assert!(used2 == used + c);
        }
        Err(e) => {
            assert!(!fits);
            assert!(is_protocol(e));
            assert!(used2 == used);
        }
    }
    assert!(used2 <= limit);
    kani::cover!(res.is_ok() && c > 0, "accepting path reached");
    kani::cover!(res.is_err(), "rejecting path reached");
    std::mem::forget((mon, ret, res));
}
