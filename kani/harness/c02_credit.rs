//! C02 / C03 / C06 / C11 — credit-accounting kernels (`chmux/credit.rs`).
//!
//! Conservation law per port direction (B = advertised buffer):
//!   pool + assigned + wire + used + to_return + in_flight_credit_frames = B.
//! Each harness moves one term with the real function from an arbitrary
//! pre-state and checks that exactly that amount moved.

use super::util::*;
use crate::chmux::SendError;
use std::convert::Infallible;
use std::task::Poll;

/// @prop C02
/// @tier quick
/// @fn chmux::credit::ChannelCreditMonitor::use_credits
/// @bounds used, limit, credits: full u32 (invariant used <= limit)
/// accepts iff used + c <= limit (no wrap); then used' = used + c, else state unchanged + Protocol error
#[kani::proof]
#[kani::unwind(2)]
#[kani::stub(alloc::fmt::format, empty_format)]
fn c02_use_credits_bound() {
    let limit: u32 = kani::any();
    let used: u32 = kani::any();
    let c: u32 = kani::any();
    kani::assume(used <= limit);
    let (mon, ret) = hc::monitor_pair(limit);
    hc::monitor_set_used(&mon, used);

    let res = hc::use_credits::<Infallible, Infallible>(&mon, c);
    let (used2, limit2) = hc::monitor_state(&mon);
    assert!(limit2 == limit);
    let fits = (used as u64) + (c as u64) <= limit as u64;
    match &res {
        Ok(uc) => {
            assert!(fits);
            assert!(hc::used_credit_value(uc) == c);
            assert!(used2 == used + c);
        }
        Err(e) => {
            assert!(!fits);
            assert!(is_protocol(e));
            assert!(used2 == used);
        }
    }
    assert!(used2 <= limit);
    kani::cover!(res.is_ok() && c > 0, "accepting path reached");
    kani::cover!(res.is_err(), "rejecting path reached");
    std::mem::forget((mon, ret, res));
}

/// Return threshold as documented: half the buffer, or 1 for buffers below 8.
fn ref_threshold(limit: u32) -> u32 {
    if limit >= 8 { limit / 2 } else { 1 }
}

/// @prop C02 C03
/// @tier quick
/// @fn chmux::credit::ChannelCreditReturner::start_return
/// @bounds limit (>= 4), used, to_return, credit: full u32 under the invariant used + to_return <= limit, credit <= used, to_return < threshold(limit); remote_port full u32; event queue of capacity 1 with room
/// @outside event queues longer than 1 (the function calls try_send once); PortNumber::drop stubbed (no port number exists in this harness)
/// consumed credit moves used -> to_return; a ReturnCredits event carries exactly everything that left to_return
/// (never more than was consumed); afterwards to_return < threshold, hence an idle receiver leaves the sender >= 4 credits
#[kani::proof]
#[kani::unwind(3)]
#[kani::stub(std::hash::RandomState::new, tokio::maps::map_random_state)]
#[kani::stub(std::collections::HashMap::insert, tokio::maps::hm_insert)]
#[kani::stub(std::collections::HashMap::get, tokio::maps::MapModel::get)]
#[kani::stub(std::collections::HashMap::get_mut, tokio::maps::MapModel::get_mut)]
#[kani::stub(std::collections::HashMap::contains_key, tokio::maps::MapModel::contains_key)]
#[kani::stub(std::collections::HashMap::remove, tokio::maps::MapModel::remove)]
#[kani::stub(std::collections::HashMap::remove_entry, tokio::maps::MapModel::remove_entry)]
#[kani::stub(std::collections::HashMap::len, tokio::maps::hm_len)]
#[kani::stub(std::collections::HashMap::is_empty, tokio::maps::hm_is_empty)]
#[kani::stub(std::collections::HashSet::insert, tokio::maps::hs_insert)]
#[kani::stub(std::collections::HashSet::contains, tokio::maps::SetModel::contains)]
#[kani::stub(std::collections::HashSet::remove, tokio::maps::SetModel::remove)]
#[kani::stub(std::collections::HashSet::len, tokio::maps::hs_len)]
#[kani::stub(std::collections::HashSet::is_empty, tokio::maps::hs_is_empty)]
#[kani::stub(<crate::chmux::PortNumber as std::ops::Drop>::drop, noop_port_number_drop)]
#[kani::stub(alloc::fmt::format, empty_format)]
fn c02_start_return_conservation() {
    start_return_case(false);
}

/// @prop C02 C03
/// @tier quick
/// @fn chmux::credit::ChannelCreditReturner::start_return
/// @fn chmux::credit::ChannelCreditReturner::return_flush
/// @bounds as c02_start_return_conservation, but the event queue (capacity 1) is full when credits become due
/// @outside PortNumber::drop stubbed (no port number exists in this harness)
/// a due return that finds the queue full is parked in a deferred future with exactly the due amount; return_flush delivers it once there is room
#[kani::proof]
#[kani::unwind(3)]
#[kani::stub(std::hash::RandomState::new, tokio::maps::map_random_state)]
#[kani::stub(std::collections::HashMap::insert, tokio::maps::hm_insert)]
#[kani::stub(std::collections::HashMap::get, tokio::maps::MapModel::get)]
#[kani::stub(std::collections::HashMap::get_mut, tokio::maps::MapModel::get_mut)]
#[kani::stub(std::collections::HashMap::contains_key, tokio::maps::MapModel::contains_key)]
#[kani::stub(std::collections::HashMap::remove, tokio::maps::MapModel::remove)]
#[kani::stub(std::collections::HashMap::remove_entry, tokio::maps::MapModel::remove_entry)]
#[kani::stub(std::collections::HashMap::len, tokio::maps::hm_len)]
#[kani::stub(std::collections::HashMap::is_empty, tokio::maps::hm_is_empty)]
#[kani::stub(std::collections::HashSet::insert, tokio::maps::hs_insert)]
#[kani::stub(std::collections::HashSet::contains, tokio::maps::SetModel::contains)]
#[kani::stub(std::collections::HashSet::remove, tokio::maps::SetModel::remove)]
#[kani::stub(std::collections::HashSet::len, tokio::maps::hs_len)]
#[kani::stub(std::collections::HashSet::is_empty, tokio::maps::hs_is_empty)]
#[kani::stub(<crate::chmux::PortNumber as std::ops::Drop>::drop, noop_port_number_drop)]
#[kani::stub(alloc::fmt::format, empty_format)]
fn c02_start_return_deferred() {
    start_return_case(true);
}

fn start_return_case(queue_full: bool) {
    let limit: u32 = kani::any();
    let used: u32 = kani::any();
    let to_return: u32 = kani::any();
    let c: u32 = kani::any();
    let remote_port: u32 = kani::any();
    kani::assume(limit >= 4);
    kani::assume((used as u64) + (to_return as u64) <= limit as u64);
    kani::assume(c <= used);
    kani::assume(to_return < ref_threshold(limit));

    let (mon, mut ret) = hc::monitor_pair(limit);
    hc::monitor_set_used(&mon, used);
    hc::returner_set_to_return(&mut ret, to_return);
    let (tx, mut rx) = tokio::sync::mpsc::channel(1);
    if queue_full {
        let dummy = hx::port_evt(hx::PortEvtView::SenderDropped { local_port: 0 });
        assert!(tx.try_send(dummy).is_ok());
    }

    hc::start_return(&mut ret, hc::used_credit(c), remote_port, &tx);

    let (used2, _) = hc::monitor_state(&mon);
    let (to_return2, deferred) = hc::returner_state(&ret);
    assert!(used2 == used - c);
    let total = to_return + c;
    let emit = total >= ref_threshold(limit);
    if queue_full {
        // the dummy comes first
        assert!(matches!(pop_evt(&mut rx), Evt::SenderDropped { local_port: 0 }));
    }
    if emit {
        assert!(to_return2 == 0);
        assert!(deferred == queue_full);
        if deferred {
            // nothing was queued yet; the deferred future sends it once there is room
            assert!(matches!(pop_evt(&mut rx), Evt::Empty));
            let mut flush = Slot::new(hc::return_flush(&mut ret));
            assert!(flush.poll().is_ready());
        }
        match pop_evt(&mut rx) {
            Evt::ReturnCredits { remote_port: rp, credits } => {
                assert!(rp == remote_port);
                assert!(credits == total);
                // conservation: what left `used`+`to_return` is exactly what was emitted
                assert!((used2 as u64) + (to_return2 as u64) + (credits as u64) == (used as u64) + (to_return as u64));
            }
            other => {
                std::mem::forget(other);
                panic!("ReturnCredits event expected")
            }
        }
        assert!(matches!(pop_evt(&mut rx), Evt::Empty));
        kani::cover!(true, "return path reached");
    } else {
        assert!(to_return2 == total);
        assert!(!deferred);
        assert!(matches!(pop_evt(&mut rx), Evt::Empty));
        kani::cover!(c > 0, "accumulating path reached");
    }
    // C03 threshold lemma: the invariant is re-established and leaves the sender at least 4 credits
    assert!(to_return2 < ref_threshold(limit));
    assert!(limit - to_return2 >= 4);
    std::mem::forget((mon, ret, tx, rx));
}

/// @prop C02 C03
/// @tier quick
/// @fn chmux::credit::CreditProvider::provide
/// @bounds pool credits, granted credits: full u32; closed flag: any; 0..=2 registered waiters
/// frame -> pool: pool' = pool + c, overflow is a Protocol error with the pool untouched; every registered waiter is woken and the list is empty (no lost wake-up)
#[kani::proof]
#[kani::unwind(4)]
#[kani::stub(alloc::fmt::format, empty_format)]
fn c02_provide_adds_and_wakes() {
    let pool: u32 = kani::any();
    let c: u32 = kani::any();
    let closed: Option<bool> = kani::any();
    let waiters: u8 = kani::any();
    kani::assume(waiters <= 2);
    let (prov, user) = hc::send_pair(0);
    hc::provider_set(&prov, pool, closed);
    let mut w0 = if waiters >= 1 { Some(hc::provider_add_waiter(&prov)) } else { None };
    let mut w1 = if waiters >= 2 { Some(hc::provider_add_waiter(&prov)) } else { None };

    let res = hc::provide::<Infallible, Infallible>(&prov, c);
    let (pool2, closed2, waiting2) = hc::provider_state(&prov);
    assert!(closed2 == closed);
    match &res {
        Ok(()) => {
            assert!((pool as u64) + (c as u64) <= u32::MAX as u64);
            assert!(pool2 == pool + c);
            assert!(waiting2 == 0);
            if let Some(w) = &mut w0 {
                assert!(w.try_recv() == Ok(()));
            }
            if let Some(w) = &mut w1 {
                assert!(w.try_recv() == Ok(()));
            }
            kani::cover!(waiters == 2, "two waiters woken");
        }
        Err(e) => {
            assert!((pool as u64) + (c as u64) > u32::MAX as u64);
            assert!(is_protocol(e));
            assert!(pool2 == pool);
            kani::cover!(true, "overflow path reached");
        }
    }
    std::mem::forget((prov, user, w0, w1, res));
}

/// @prop C03 C11
/// @tier quick
/// @fn chmux::credit::CreditProvider::close
/// @bounds pool: full u32; gracefully: any; 0..=2 registered waiters
/// close records the classification, keeps the pool and wakes every waiter
#[kani::proof]
#[kani::unwind(4)]
fn c03_close_wakes() {
    let pool: u32 = kani::any();
    let gracefully: bool = kani::any();
    let waiters: u8 = kani::any();
    kani::assume(waiters <= 2);
    let (prov, user) = hc::send_pair(pool);
    let mut w0 = if waiters >= 1 { Some(hc::provider_add_waiter(&prov)) } else { None };
    let mut w1 = if waiters >= 2 { Some(hc::provider_add_waiter(&prov)) } else { None };
    hc::close(&prov, gracefully);
    let (pool2, closed2, waiting2) = hc::provider_state(&prov);
    assert!(pool2 == pool);
    assert!(closed2 == Some(gracefully));
    assert!(waiting2 == 0);
    if let Some(w) = &mut w0 {
        assert!(w.try_recv() == Ok(()));
    }
    if let Some(w) = &mut w1 {
        assert!(w.try_recv() == Ok(()));
    }
    kani::cover!(waiters == 2 && gracefully, "two waiters woken on graceful close");
    std::mem::forget((prov, user, w0, w1));
}

/// Reference classification of a credit request against a closed/open pool.
fn ref_closed_error(closed: Option<bool>, override_graceful: bool) -> Option<bool> {
    match closed {
        Some(g) if !override_graceful || !g => Some(g),
        _ => None,
    }
}

/// @prop C02 C06 C11
/// @tier quick
/// @fn chmux::credit::CreditUser::try_request
/// @bounds pool, req (>= 1): full u32; closed: None/Some(true)/Some(false); override flag: any; provider alive or dropped
/// pool -> assigned: grants exactly req iff pool >= req, never more than the pool; closed pools yield the documented Closed{gracefully} error unless a graceful close is overridden; a dead dispatcher yields ChMux
#[kani::proof]
#[kani::unwind(2)]
fn c02_try_request_table() {
    let pool: u32 = kani::any();
    let req: u32 = kani::any();
    let closed: Option<bool> = kani::any();
    let over: bool = kani::any();
    let alive: bool = kani::any();
    kani::assume(req >= 1);
    let (prov, mut user) = hc::send_pair(0);
    hc::provider_set(&prov, pool, closed);
    hc::user_set_override(&mut user, over);
    let prov = if alive {
        Some(prov)
    } else {
        drop(prov);
        None
    };

    let res = hc::try_request(&user, req);
    match (&res, &prov) {
        (Err(SendError::ChMux), None) => kani::cover!(true, "dead dispatcher reported as ChMux"),
        (_, None) => panic!("dropped provider must yield SendError::ChMux"),
        (res, Some(prov)) => {
            let (pool2, closed2, _) = hc::provider_state(prov);
            assert!(closed2 == closed);
            match (res, ref_closed_error(closed, over)) {
                (Err(SendError::Closed { gracefully }), Some(g)) => {
                    assert!(*gracefully == g);
                    assert!(pool2 == pool);
                    kani::cover!(g, "graceful close reported");
                    kani::cover!(!g, "non-graceful close reported");
                }
                (Ok(Some(a)), None) => {
                    assert!(pool >= req);
                    assert!(hc::assigned_available(a) == req);
                    assert!(pool2 == pool - req);
                    kani::cover!(closed == Some(true), "override lets a gracefully closed pool grant");
                }
                (Ok(None), None) => {
                    assert!(pool < req);
                    assert!(pool2 == pool);
                    kani::cover!(true, "shortage reported as None");
                }
                _ => panic!("unexpected try_request outcome"),
            }
        }
    }
    std::mem::forget((prov, user, res));
}

/// `alive`: the dispatcher (credit provider) still exists; `closed_known`: the pool is closed
/// (gracefully or not: symbolic) / open.  Both are concrete per harness: a symbolic `alive` makes the
/// provider's destructor conditional and CBMC explores its drop glue under every later path (measured:
/// 525 k steps, > 20 GB).
fn request_poll_case(alive: bool, closed_known: bool) {
    let pool: u32 = kani::any();
    let req: u32 = kani::any();
    let min_req: u32 = kani::any();
    let closed: Option<bool> = if closed_known { Some(kani::any()) } else { None };
    let over: bool = kani::any();
    let grant: u32 = kani::any();
    kani::assume(min_req >= 1 && min_req <= req);
    let (prov, mut user) = hc::send_pair(0);
    hc::provider_set(&prov, pool, closed);
    hc::user_set_override(&mut user, over);
    let prov = if alive {
        Some(prov)
    } else {
        drop(prov);
        None
    };

    let mut fut = Slot::new(hc::request(&user, req, min_req));
    let first = fut.poll();
    match &prov {
        None => {
            assert!(matches!(first, Poll::Ready(Err(SendError::ChMux))));
            kani::cover!(true, "dead dispatcher: Ready(Err(ChMux)), not Pending");
        }
        Some(prov) => {
            let (pool2, _, waiting2) = hc::provider_state(prov);
            match (first, ref_closed_error(closed, over)) {
                (Poll::Ready(Err(SendError::Closed { gracefully })), Some(g)) => {
                    assert!(gracefully == g);
                    assert!(pool2 == pool && waiting2 == 0);
                    kani::cover!(true, "closed pool: Ready(Err(Closed))");
                }
                (Poll::Ready(Ok(a)), None) => {
                    assert!(pool >= min_req);
                    let got = hc::assigned_available(&a);
                    assert!(got == if pool < req { pool } else { req });
                    assert!(got >= min_req && got <= pool);
                    assert!(pool2 == pool - got);
                    assert!(waiting2 == 0);
                    kani::cover!(got < req, "partial grant");
                    std::mem::forget(a);
                }
                (Poll::Pending, None) => {
                    assert!(pool < min_req);
                    assert!(pool2 == pool);
                    assert!(waiting2 == 1);
                    // the peer grants credit: waiter is woken and the retry succeeds iff enough arrived
                    kani::assume((pool as u64) + (grant as u64) <= u32::MAX as u64);
                    assert!(hc::provide::<Infallible, Infallible>(prov, grant).is_ok());
                    let second = fut.poll();
                    let (pool3, _, waiting3) = hc::provider_state(prov);
                    if pool + grant >= min_req {
                        match second {
                            Poll::Ready(Ok(a)) => {
                                let got = hc::assigned_available(&a);
                                assert!(got >= min_req && got <= req);
                                assert!(pool3 == pool + grant - got);
                                assert!(waiting3 == 0);
                                kani::cover!(true, "woken request completes");
                                std::mem::forget(a);
                            }
                            _ => panic!("request must complete once enough credit was granted"),
                        }
                    } else {
                        assert!(second.is_pending());
                        assert!(waiting3 == 1);
                        kani::cover!(true, "still short: waits again with a fresh waiter");
                    }
                }
                _ => panic!("unexpected request outcome"),
            }
        }
    }
    std::mem::forget((prov, user));
}

macro_rules! request_poll_harness {
    ($($name:ident, $alive:expr, $closed:expr;)*) => {$(
        /// @prop C02 C03 C06 C11
        /// @tier quick
        /// @covers any
        /// @fn chmux::credit::CreditUser::request
        /// @fn chmux::credit::CreditProvider::provide
        /// @bounds pool, req, min_req (1 <= min_req <= req), later grant: full u32; override flag symbolic; family: provider alive with an open pool / alive with a closed pool (graceful or not: symbolic) / dropped; two polls
        /// ready path: grants min(pool, req) >= min_req and deducts exactly that; shortage: Pending with one waiter registered under the same lock acquisition; after the peer grants enough, the next poll completes (no lost wake-up); closed/dead pools error on the first poll, never Pending
        #[kani::proof]
        #[kani::unwind(3)]
        #[kani::stub(alloc::fmt::format, empty_format)]
        fn $name() {
            request_poll_case($alive, $closed);
        }
    )*};
}

request_poll_harness! {
    c02_request_poll_open, true, false;
    c02_request_poll_closed, true, true;
    c02_request_poll_dispatcher_gone, false, false;
}

/// @prop C02 C03
/// @tier quick
/// @fn chmux::credit::AssignedCredits::take
/// @fn chmux::credit::AssignedCredits::drop
/// @bounds pool, assigned n, taken k (k <= n): full u32 with pool + n <= u32::MAX (conservation: pool + assigned <= advertised buffer)
/// assigned -> wire / -> pool: take(k) leaves n-k; dropping returns exactly the unused n-k to the pool (none if the dispatcher is gone); nothing is created or lost
#[kani::proof]
#[kani::unwind(2)]
fn c02_assigned_take_and_drop() {
    let pool: u32 = kani::any();
    let n: u32 = kani::any();
    let k: u32 = kani::any();
    let alive: bool = kani::any();
    kani::assume(n >= 1 && k <= n);
    kani::assume((pool as u64) + (n as u64) <= u32::MAX as u64);
    let (prov, user) = hc::send_pair(0);
    hc::provider_set(&prov, pool + n, None);
    let mut a = match hc::try_request(&user, n) {
        Ok(Some(a)) => a,
        _ => panic!("grant expected"),
    };
    assert!(hc::provider_state(&prov).0 == pool);
    hc::assigned_take(&mut a, k);
    assert!(hc::assigned_available(&a) == n - k);
    if alive {
        drop(a);
        let (pool2, _, _) = hc::provider_state(&prov);
        assert!(pool2 == pool + (n - k));
        kani::cover!(k > 0 && k < n, "partially used credits returned");
        std::mem::forget(prov);
    } else {
        drop(prov);
        drop(a); // must not panic
        kani::cover!(true, "drop after dispatcher death");
    }
    std::mem::forget(user);
}
