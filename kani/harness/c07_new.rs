//! C07 / C10 — `ChMux::new` (`chmux/mux.rs`): the real constructor is run to completion over a transport
//! whose sink accepts everything and whose stream delivers the peer's Hello frame, and what it builds is
//! compared with the two exchanged configurations: every queue a *local* party fills is sized by what THIS
//! endpoint advertised, every limit that polices the *peer* by what the PEER advertised.  (The dispatcher
//! fixtures of the other harness files duplicate these statements in a hook and cannot see a change here.)

use super::util::*;
use crate::chmux::verif::{ExchangedCfg, MultiplexMsg};
use bytes::Bytes;
use futures::Stream;
use std::convert::Infallible;
use std::pin::Pin;
use std::task::{Context, Poll};

/// Transport stream that delivers the queued frames in order, then ends.
pub struct FrameStream {
    frames: [Option<Bytes>; 2],
    next: usize,
}

impl Stream for FrameStream {
    type Item = Result<Bytes, Infallible>;
    fn poll_next(mut self: Pin<&mut Self>, _: &mut Context<'_>) -> Poll<Option<Self::Item>> {
        let i = self.next;
        if i < 2 {
            self.next = i + 1;
            Poll::Ready(self.frames[i].take().map(Ok))
        } else {
            Poll::Ready(None)
        }
    }
}

fn new_case(local_queue: u16, remote_queue: u16, reset_first: bool) {
    let mut cfg = Cfg::default();
    cfg.connection_timeout = None;
    cfg.max_ports = 8;
    cfg.shared_send_queue = 2;
    cfg.connect_queue = local_queue;
    cfg.max_data_size = 16;
    cfg.max_received_ports = 4;
    // concrete peer values: a symbolic chunk size / buffer reaches the decoder's `invalid_data` arm, whose
    // io::Error construction and drop glue does not finish symbolic execution (measured: no verdict in 300 s)
    let remote_chunk: u32 = 8;
    let remote_buffer: u32 = 16;
    let remote_version: u8 = 3;
    let hello = MultiplexMsg::Hello {
        version: remote_version,
        cfg: ExchangedCfg {
            connection_timeout: None,
            chunk_size: remote_chunk,
            port_receive_buffer: remote_buffer,
            connect_queue: remote_queue,
        },
    };
    let hello = Bytes::from(hello.to_vec());
    // a peer starts with Reset (skipped by the receiver) and then says Hello
    let frames = if reset_first {
        [Some(Bytes::from(MultiplexMsg::Reset.to_vec())), Some(hello)]
    } else {
        [Some(hello), None]
    };
    let stream = FrameStream { frames, next: 0 };

    let res = ready_now!(ChMux::<NullSink, FrameStream>::new(cfg, NullSink, stream));
    let (mux, client, listener) = match res {
        Ok(v) => v,
        Err(_) => panic!("hello exchange over a working transport must succeed"),
    };

    // queues filled by the PEER's requests: sized by the LOCAL advertisement (+1 for the ClientDropped marker)
    assert!(hx::mux_listen_capacity(&mux, true) == Some(usize::from(local_queue) + 1));
    assert!(hx::mux_listen_capacity(&mux, false) == Some(usize::from(local_queue) + 1));
    // requests this endpoint may have outstanding at the peer: limited by the PEER's advertisement
    assert!(hcl::client_connect_credits(&client) == usize::from(remote_queue));
    // shared event queue as configured
    assert!(hx::mux_channel_capacity(&mux) == 2);
    // the peer's version and configuration are recorded unchanged
    let (v, rc) = hx::mux_remote(&mux);
    assert!(v == remote_version);
    assert!(rc.chunk_size == remote_chunk && rc.port_receive_buffer == remote_buffer);
    assert!(rc.connect_queue == remote_queue);
    // fresh dispatcher: no flags raised
    let f = hx::mux_flags(&mux);
    assert!(!f.goodbye_sent && !f.goodbye_received && !f.all_clients_dropped && !f.remote_client_dropped);
    kani::cover!(true, "constructor completed");
    std::mem::forget((mux, client, listener));
}

macro_rules! new_harness {
    ($($name:ident, $lq:expr, $rq:expr, $reset:expr;)*) => {$(
        with_lean_model! {
        /// @prop C07 C10
        /// @tier off
        /// @fn chmux::mux::ChMux::new
        /// @fn chmux::mux::ChMux::exchange_hello
        /// @fn chmux::mux::ChMux::recv_msg
        /// @fn chmux::msg::MultiplexMsg::from_slice
        /// @fn chmux::client::Client::new
        /// @fn chmux::listener::Listener::new
        /// @bounds local / peer connect_queue concrete per harness (they decide queue allocation sizes); peer chunk size 8, receive buffer 16, protocol version 3 (concrete: the decoder's error arm for invalid values is not encodable); peer frames: [Reset,] Hello; sink always ready; no connection timeout
        /// @outside connection timeout racing the exchange; transport errors and pending transports during the exchange; frames before Hello other than Reset
        /// the constructor succeeds, both listener queues hold local connect_queue + 1 entries, the client holds exactly the peer's connect_queue request credits, the shared event queue has the configured length and the peer's version and configuration are recorded unchanged
        #[kani::proof]
        #[kani::unwind(20)]
        #[kani::stub(alloc::fmt::format, empty_format)]
        fn $name() {
            new_case($lq, $rq, $reset);
        }
        }
    )*};
}

new_harness! {
    c07_new_queues_plain_l1_r3, 1, 3, false;
    c07_new_queues_plain_l3_r1, 3, 1, false;
    c07_new_queues_l1_r3_after_reset, 1, 3, true;
}
