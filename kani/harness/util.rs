//! Shared harness helpers.

use bytes::Bytes;
use futures::{Sink, Stream};
use std::convert::Infallible;
use std::future::Future;
use std::pin::Pin;
use std::task::{Context, Poll};

pub use crate::chmux::verif::{
    client as hcl, credit as hc, listener as hl, msg as hm, mux as hx, port_allocator as hp, receiver as hr,
    sender as hs, storage as hst,
};
pub use crate::chmux::{Cfg, ChMux, ChMuxError};
pub use tokio::model::{empty_format, fixed_random_state, Slot};

/// Transport sink that is never used (dispatcher step harnesses do not touch the transport).
pub struct NullSink;
impl Sink<Bytes> for NullSink {
    type Error = Infallible;
    fn poll_ready(self: Pin<&mut Self>, _: &mut Context<'_>) -> Poll<Result<(), Infallible>> {
        Poll::Ready(Ok(()))
    }
    fn start_send(self: Pin<&mut Self>, _: Bytes) -> Result<(), Infallible> {
        Ok(())
    }
    fn poll_flush(self: Pin<&mut Self>, _: &mut Context<'_>) -> Poll<Result<(), Infallible>> {
        Poll::Ready(Ok(()))
    }
    fn poll_close(self: Pin<&mut Self>, _: &mut Context<'_>) -> Poll<Result<(), Infallible>> {
        Poll::Ready(Ok(()))
    }
}

/// Transport stream that is never used.
pub struct NullStream;
impl Stream for NullStream {
    type Item = Result<Bytes, Infallible>;
    fn poll_next(self: Pin<&mut Self>, _: &mut Context<'_>) -> Poll<Option<Self::Item>> {
        Poll::Ready(None)
    }
}

pub type Mux = ChMux<NullSink, NullStream>;
pub type MuxErr = ChMuxError<Infallible, Infallible>;

/// Polls a future that must be ready on its first poll; the future is leaked.
macro_rules! ready_now {
    ($fut:expr) => {{
        let mut slot = crate::verif_harness::util::Slot::new($fut);
        match slot.poll() {
            std::task::Poll::Ready(v) => v,
            std::task::Poll::Pending => panic!("future expected to be ready on first poll"),
        }
    }};
}
pub(crate) use ready_now;

pub fn is_protocol(e: &MuxErr) -> bool {
    matches!(e, ChMuxError::Protocol(_))
}

/// Simplified view of a queued port event that owns no heap data except `Bytes`
/// (everything else is leaked instead of dropped: drop glue of `PortEvt` is costly).
pub enum Evt {
    Empty,
    ReturnCredits { remote_port: u32, credits: u32 },
    SendData { remote_port: u32, data: Bytes, first: bool, last: bool },
    SenderDropped { local_port: u32 },
    ReceiverClosed { local_port: u32 },
    ReceiverDropped { local_port: u32 },
    Rejected { remote_port: u32, no_ports: bool },
    Other,
}

/// Pops the next event of a port-event queue without running any destructor.
pub fn pop_evt(rx: &mut tokio::sync::mpsc::Receiver<crate::chmux::verif::mux::VPortEvt>) -> Evt {
    match rx.try_recv() {
        Err(_) => Evt::Empty,
        Ok(e) => match hx::port_evt_view(e) {
            hx::PortEvtView::ReturnCredits { remote_port, credits } => Evt::ReturnCredits { remote_port, credits },
            hx::PortEvtView::SendData { remote_port, data, first, last } => {
                Evt::SendData { remote_port, data, first, last }
            }
            hx::PortEvtView::SenderDropped { local_port } => Evt::SenderDropped { local_port },
            hx::PortEvtView::ReceiverClosed { local_port } => Evt::ReceiverClosed { local_port },
            hx::PortEvtView::ReceiverDropped { local_port } => Evt::ReceiverDropped { local_port },
            hx::PortEvtView::Rejected { remote_port, no_ports } => Evt::Rejected { remote_port, no_ports },
            other => {
                std::mem::forget(other);
                Evt::Other
            }
        },
    }
}

/// Wraps a harness so that every `std::collections::{HashMap, HashSet}` operation remoc's
/// dispatcher and port allocator perform is executed by the side-table model in
/// `/verif/models/tokio/src/maps.rs` (std's hashbrown tables are out of CBMC's reach).
macro_rules! with_map_model {
    ($($item:tt)*) => {
        #[kani::stub(std::hash::RandomState::new, tokio::maps::map_random_state)]
        #[kani::stub(std::collections::HashMap::insert, tokio::maps::hm_insert)]
        #[kani::stub(std::collections::HashMap::get, tokio::maps::MapModel::get)]
        #[kani::stub(std::collections::HashMap::get_mut, tokio::maps::MapModel::get_mut)]
        #[kani::stub(std::collections::HashMap::contains_key, tokio::maps::MapModel::contains_key)]
        #[kani::stub(std::collections::HashMap::remove, tokio::maps::MapModel::remove)]
        #[kani::stub(std::collections::HashMap::remove_entry, tokio::maps::MapModel::remove_entry)]
        #[kani::stub(std::collections::HashMap::len, tokio::maps::hm_len)]
        #[kani::stub(std::collections::HashMap::is_empty, tokio::maps::hm_is_empty)]
        #[kani::stub(std::collections::HashSet::insert, tokio::maps::hs_insert)]
        #[kani::stub(std::collections::HashSet::contains, tokio::maps::SetModel::contains)]
        #[kani::stub(std::collections::HashSet::remove, tokio::maps::SetModel::remove)]
        #[kani::stub(std::collections::HashSet::len, tokio::maps::hs_len)]
        #[kani::stub(std::collections::HashSet::is_empty, tokio::maps::hs_is_empty)]
        $($item)*
    };
}
pub(crate) use with_map_model;

/// `with_map_model!` plus: the last drop of an `Arc` leaks the shared value instead of running its
/// destructor (see `tokio::maps::arc_drop_slow_leak`).  This keeps the drop glue of everything
/// reachable from a port's sender/receiver objects (allocator sets, the handle storage map, credit
/// pools) out of the symbolic execution; harnesses whose property depends on such a destructor
/// (wake-ups caused by dropping the dispatcher) use `with_map_model!` instead.
macro_rules! with_lean_model {
    ($($item:tt)*) => {
        crate::verif_harness::util::with_map_model! {
            #[kani::stub(std::sync::Arc::drop_slow, tokio::maps::arc_drop_slow_leak)]
            $($item)*
        }
    };
}
pub(crate) use with_lean_model;

/// Stub for `<PortNumber as Drop>::drop` in harnesses that hold no port number: keeps the
/// (unreachable but symbolically explored) destructor paths of queued events cheap.
pub fn noop_port_number_drop(_p: &mut crate::chmux::PortNumber) {}

// ---------------------------------------------------------------------------
// Dispatcher fixtures

use crate::chmux::verif::{ExchangedCfg, MultiplexMsg};

pub struct MuxParams {
    pub local_chunk: u32,
    pub local_buffer: u32,
    pub remote_chunk: u32,
    pub remote_buffer: u32,
    pub remote_version: u8,
}

impl MuxParams {
    /// Arbitrary valid exchanged parameters (both endpoints enforce chunk >= 4, buffer >= 4).
    pub fn any() -> Self {
        let p = MuxParams {
            local_chunk: kani::any(),
            local_buffer: kani::any(),
            remote_chunk: kani::any(),
            remote_buffer: kani::any(),
            remote_version: kani::any(),
        };
        kani::assume(p.local_chunk >= 4 && p.local_buffer >= 4 && p.remote_chunk >= 4 && p.remote_buffer >= 4);
        p
    }

    pub fn fixed() -> Self {
        MuxParams { local_chunk: 8, local_buffer: 16, remote_chunk: 8, remote_buffer: 16, remote_version: 3 }
    }
}

/// A dispatcher as `ChMux::new` leaves it after the hello exchange (no transport attached):
/// shared event queue of 2, connect queue of 1 (listener queues hold 2), transport send queue of 2.
pub fn new_mux(p: &MuxParams) -> (Mux, hx::MuxEnv) {
    let mut cfg = Cfg::default();
    cfg.chunk_size = p.local_chunk;
    cfg.receive_buffer = p.local_buffer;
    cfg.max_ports = 8;
    cfg.shared_send_queue = 2;
    cfg.connect_queue = 1;
    cfg.max_data_size = 16;
    cfg.max_received_ports = 4;
    let remote = ExchangedCfg {
        connection_timeout: None,
        chunk_size: p.remote_chunk,
        port_receive_buffer: p.remote_buffer,
        // deliberately different from the local connect_queue (1): the listener queues must be sized by
        // what THIS endpoint advertised, the connect-request credits by what the peer advertised
        connect_queue: 3,
    };
    hx::mux_new::<NullSink, NullStream>(cfg, remote, p.remote_version, 2)
}

/// Enters a connected port through the real `create_port`.
pub fn add_connected(mux: &mut Mux, local: u32, remote: u32) -> (crate::chmux::Sender, crate::chmux::Receiver) {
    let pn = hp::allocator_reserve(&hx::mux_allocator(mux), local);
    mux.verif_create_port(pn, remote)
}

/// Enters a connected port without building user-facing objects (cheap fixture).
pub fn insert_connected(mux: &mut Mux, local: u32, remote: u32) -> hx::PortEnds {
    let pn = hp::allocator_reserve(&hx::mux_allocator(mux), local);
    hx::mux_insert_connected(mux, pn, remote)
}

/// Arbitrary flags of a connected port.
pub fn any_port_flags() -> hx::PortFlags {
    hx::PortFlags {
        remote_sender_finished: kani::any(),
        receiver_closed: kani::any(),
        receiver_dropped: kani::any(),
        sender_dropped: kani::any(),
        remote_receiver_closed: kani::any(),
        remote_receiver_dropped: kani::any(),
    }
}

/// Next message the dispatcher queued for the transport (None if nothing was queued).
pub fn sent(env: &mut hx::MuxEnv) -> Option<(MultiplexMsg, Option<Bytes>)> {
    env.send.try_recv()
}

/// Handles one local event with the real `handle_event` (one atomic dispatcher step).
macro_rules! step_event {
    ($mux:expr, $env:expr, $evt:expr) => {{
        let mut slot = crate::verif_harness::util::Slot::new($mux.verif_handle_event(&$env.send, $evt));
        match slot.poll() {
            std::task::Poll::Ready(r) => r,
            std::task::Poll::Pending => panic!("handle_event must not suspend"),
        }
    }};
}
pub(crate) use step_event;

/// Handles one received message with the real `handle_received_msg` (one atomic dispatcher step).
macro_rules! step_msg {
    ($mux:expr, $msg:expr, $data:expr) => {{
        let mut slot = crate::verif_harness::util::Slot::new($mux.verif_handle_received_msg($msg, $data));
        match slot.poll() {
            std::task::Poll::Ready(r) => r,
            std::task::Poll::Pending => panic!("handle_received_msg must not suspend"),
        }
    }};
}
pub(crate) use step_msg;

/// True if all four release conditions of a port hold.
pub fn all_four(f: &hx::PortFlags) -> bool {
    f.sender_dropped && f.receiver_dropped && f.remote_sender_finished && f.remote_receiver_dropped
}

/// Item of a port's receive queue without destructors being run.
pub enum RxItem {
    Empty,
    Data { buf: Bytes, first: bool, last: bool, credit: u32 },
    Ports { requests: Vec<crate::chmux::Request>, first: bool, last: bool, credit: u32 },
    Finished,
}

/// Pops the next item from the queue feeding a `chmux::Receiver` (the harness keeps the receiving end
/// inside the real `Receiver`; this helper is for queues the harness owns).
pub fn rx_pop_raw(rx: &mut tokio::sync::mpsc::UnboundedReceiver<crate::chmux::verif::receiver::VPortReceiveMsg>) -> RxItem {
    match rx.try_recv() {
        Err(_) => RxItem::Empty,
        Ok(m) => match hr::port_receive_view(m) {
            hr::PortReceiveView::Data { buf, first, last, credit } => RxItem::Data { buf, first, last, credit },
            hr::PortReceiveView::PortRequests { requests, first, last, credit } => {
                RxItem::Ports { requests, first, last, credit }
            }
            hr::PortReceiveView::Finished => RxItem::Finished,
        },
    }
}

/// Pops the next item queued for a real `chmux::Receiver`.
pub fn rx_pop(rx: &mut crate::chmux::Receiver) -> RxItem {
    rx_pop_raw(hr::receiver_queue(rx))
}

