//! Shared harness helpers.

use bytes::Bytes;
use futures::{Sink, Stream};
use std::convert::Infallible;
use std::future::Future;
use std::pin::Pin;
use std::task::{Context, Poll};

pub use crate::chmux::verif::{
    client as hcl, credit as hc, listener as hl, msg as hm, mux as hx, port_allocator as hp, receiver as hr,
    sender as hs, storage as hst,
};
pub use crate::chmux::{Cfg, ChMux, ChMuxError};
pub use tokio::model::{empty_format, fixed_random_state, Slot};

/// Transport sink that is never used (dispatcher step harnesses do not touch the transport).
pub struct NullSink;
impl Sink<Bytes> for NullSink {
    type Error = Infallible;
    fn poll_ready(self: Pin<&mut Self>, _: &mut Context<'_>) -> Poll<Result<(), Infallible>> {
        Poll::Ready(Ok(()))
    }
    fn start_send(self: Pin<&mut Self>, _: Bytes) -> Result<(), Infallible> {
        Ok(())
    }
    fn poll_flush(self: Pin<&mut Self>, _: &mut Context<'_>) -> Poll<Result<(), Infallible>> {
        Poll::Ready(Ok(()))
    }
    fn poll_close(self: Pin<&mut Self>, _: &mut Context<'_>) -> Poll<Result<(), Infallible>> {
        Poll::Ready(Ok(()))
    }
}

/// Transport stream that is never used.
pub struct NullStream;
impl Stream for NullStream {
    type Item = Result<Bytes, Infallible>;
    fn poll_next(self: Pin<&mut Self>, _: &mut Context<'_>) -> Poll<Option<Self::Item>> {
        Poll::Ready(None)
    }
}

pub type Mux = ChMux<NullSink, NullStream>;
pub type MuxErr = ChMuxError<Infallible, Infallible>;

/// Polls a future that must be ready on its first poll; the future is leaked.
macro_rules! ready_now {
    ($fut:expr) => {{
        let mut slot = crate::verif_harness::util::Slot::new($fut);
        match slot.poll() {
            std::task::Poll::Ready(v) => v,
            std::task::Poll::Pending => panic!("future expected to be ready on first poll"),
        }
    }};
}
pub(crate) use ready_now;

pub fn is_protocol(e: &MuxErr) -> bool {
    matches!(e, ChMuxError::Protocol(_))
}
