//! C05 — interlock of a channel's two halves (`rch/interlock.rs`): a half counts as local unless its
//! transfer to a remote endpoint is under way or has been confirmed.

use super::util::*;
use crate::rch::verif_interlock::{Interlock, Location};

/// `outcome`: 0 = transfer still under way, 1 = transfer confirmed, 2 = transfer failed (confirmation dropped)
fn interlock_case(outcome: u8) {
    let mut il = Interlock::new();
    // both halves start local
    assert!(il.sender.check_local() && il.receiver.check_local());
    let tx = il.sender.start_send();
    // while the sender half is being transferred it is not local; the other half is unaffected
    assert!(!il.sender.check_local());
    assert!(il.receiver.check_local());
    match outcome {
        0 => {
            assert!(!il.sender.check_local());
            assert!(matches!(il.sender, Location::Sending(_)));
            std::mem::forget(tx);
        }
        1 => {
            assert!(tx.send(()).is_ok());
            assert!(!il.sender.check_local());
            assert!(matches!(il.sender, Location::Remote));
            // remote is final
            assert!(!il.sender.check_local());
        }
        _ => {
            drop(tx);
            // a transfer that failed leaves the half local again
            assert!(il.sender.check_local());
            assert!(matches!(il.sender, Location::Local));
        }
    }
    assert!(il.receiver.check_local());
    kani::cover!(true, "reached");
    std::mem::forget(il);
}

macro_rules! interlock_harness {
    ($($name:ident, $o:expr;)*) => {$(
        /// @prop C05
        /// @tier quick
        /// @fn rch::interlock::Location::{check_local,start_send}
        /// @fn rch::interlock::Interlock::new
        /// @bounds one transfer of the sender half; outcome per harness: still under way / confirmed / failed
        /// @outside the channel types that consult the interlock when they are serialized (serde)
        /// a half is local at first; from the start of its transfer it is not local, stays non-local for good once the transfer is confirmed and becomes local again if the transfer fails; the other half is unaffected throughout
        #[kani::proof]
        #[kani::unwind(3)]
        fn $name() {
            interlock_case($o);
        }
    )*};
}

interlock_harness! {
    c05_interlock_transfer_pending, 0;
    c05_interlock_transfer_confirmed, 1;
    c05_interlock_transfer_failed, 2;
}
