#!/usr/bin/env python3
"""Regenerates /verif/MANIFEST.json from the table below and the harness registry."""
import json
import os
import subprocess
import sys

ROOT = os.path.dirname(os.path.dirname(os.path.abspath(__file__)))
sys.path.insert(0, os.path.join(ROOT, "driver"))
import harnesses as hreg  # noqa: E402

TECH = "bounded symbolic execution of the real remoc functions with Kani 0.68 -> CBMC 6.11 -> CaDiCaL (SAT); one-step harnesses from arbitrary invariant-satisfying pre-states; counterexamples replayed natively with cargo kani playback"

BASE_NOTE = ("Trusted: Kani/CBMC/CaDiCaL; tokio and tokio-util replaced by the deterministic models in /verif/models "
             "(contracts from the tokio docs, diffed against real tokio by /verif/conformance); tracing off; "
             "fmt::format / RandomState::new stubbed where the harness says so; the written pre-state invariants; "
             "cfg(remoc_verif) add-only hooks. Bounds and what lies outside them are listed per harness in the evidence file.")

# property -> (claim text, design_ref)
CLAIMS = {
    "C01": ("Solver verdict, for all flag/port/credit values and payloads up to the stated lengths, that the dispatcher's "
            "data-path steps (handle_event(SendData), handle_received_msg(Data)) pass payload bytes and first/last flags "
            "through unchanged to exactly the addressed port and reject data for ports that are not connected or already "
            "finished. Sender-side chunking and receiver-side reassembly harnesses exist but are only registered where they "
            "verify within the cap (see evidence); end-to-end exactly-once delivery is a composition argument over these "
            "atomic steps and FIFO queues, not a solver result.", "DESIGN.md 0, 4 C01"),
    "C02": ("Solver verdict over all 32-bit values for every credit-moving step (use_credits, start_return/return_flush, "
            "provide, try_request/request, AssignedCredits take/drop) and for the dispatcher's PortCredits/ReturnCredits "
            "steps: each step moves exactly the amount it accounts for, never exceeds the advertised buffer, never returns "
            "more than was consumed. The whole-life bound follows by induction over these atomic steps (single dispatcher "
            "task); the induction itself is a paper argument.", "DESIGN.md 4 C02"),
    "C03": ("Safety core of liveness, decided by the solver for all 32-bit credit values: no credit is created or lost by any "
            "credit kernel, provide/close wake every registered waiter, a request that found too little credit is registered "
            "as waiter under the same lock and completes on the next poll once enough was granted, and after any "
            "start_return the receiver holds back less than the threshold so an idle receiver leaves the sender >= 4 credits. "
            "The fairness part of liveness (eventual completion under a fair scheduler) is not decided.", "DESIGN.md 4 C03"),
    "C05": ("Pairing kernels only: the dispatcher's Accepted step hands the accepting side a sender/receiver pair for exactly "
            "(local port, requested remote port) and answers the peer with exactly that pair of numbers (solver verdict for all "
            "port numbers). The rch layer (serde callbacks, forwarding, interlock) is outside.", "DESIGN.md 4 C05"),
    "C06": ("Port-level observation only: for all pool/flag values, a credit request on a port whose dispatcher is gone "
            "returns Ready(Err(ChMux)) on its first poll (never Pending) and try_request returns ChMux; closed pools yield the "
            "documented Closed{gracefully}; Reset/Hello received on an established connection terminate the dispatcher step "
            "with an error. Timeouts, run()'s select loop and typed channels are outside.", "DESIGN.md 4 C06"),
    "C07": ("Solver verdict over all flag combinations for the port-table kernels: maybe_free_port releases the entry and the "
            "port number iff all four conditions hold; each local drop/close event and each remote finish/close "
            "notification sets exactly its own flag, emits exactly its frame and releases iff all four; should_terminate "
            "equals the documented formula. Task reclamation and the two-sided Goodbye exchange are outside.", "DESIGN.md 4 C07"),
    "C08": ("No-panic and protocol-error classification, decided by the solver (Kani's panic/overflow/bounds checks on) for "
            "one dispatcher step per message kind from dispatcher states with symbolic flags: notifications and data for "
            "unknown, connecting, finished or already-closed ports, repeated notifications, over-full listener queues, "
            "Reset/Hello, credit overflow - all end in ChMuxError::Protocol/Reset with no state change. Frame decoding of "
            "well-formed frames is under C09. Arbitrary byte strings and PortData frames are not registered (too heavy); "
            "known finding F5 concerns the latter.", "DESIGN.md 4 C08"),
    "C09": ("Differential check against an independently written reference layout of protocol v3: for every message kind, "
            "with every field and flag symbolic over its full range, the real encoder's bytes equal the reference bytes and "
            "the real decoder accepts the reference bytes and yields the same fields (PortData as a family 0..2 ports, ids "
            "present/absent = v2 form); ids are emitted in OpenPort iff the peer announced version >= 3.", "DESIGN.md 4 C09"),
    "C10": ("Exactly-once resolution kernels, decided per step for all port numbers/ids/flags: ConnectReq either registers "
            "the port and emits one OpenPort or is refused locally with Rejected; PortOpened/Rejected resolve exactly the "
            "responder registered under that client port once (repeat, connected or unknown port = Protocol error); OpenPort "
            "rejects duplicates and over-full queues and queues exactly one request in the queue selected by the wait flag; "
            "Accepted/Rejected events answer the peer and forget the outstanding request. Connect futures, the request "
            "crediter and exhaustion policies are outside.", "DESIGN.md 4 C10"),
    "C11": ("Port-level close/drop kernels: ReceiveClose closes the credit pool gracefully, ReceiveFinish non-gracefully, "
            "both raise the hang-up flag, fire notifiers once and wake blocked senders; credit requests on closed pools "
            "return the documented classification (incl. the graceful-close override); ReceiverClosed/ReceiverDropped/"
            "SenderDropped events emit exactly ReceiveClose/ReceiveFinish/SendFinish. Typed channels and eventual "
            "observability are outside.", "DESIGN.md 4 C11"),
}

NOT_APPLICABLE = {
    "C04": "lives in serde codecs, spawn_blocking serialisation threads and mpsc forwarding tasks; cannot be encoded for the solver (threads, codec loops); the chmux-level root cause of its known loss is decided under C01",
    "C12": "macro-generated multi-task RPC; linearizability of concurrent histories has no single-step kernel and multi-task coroutine execution is out of reach for Kani",
    "C15": "behaviour is tokio's watch cell (replaced by a model here) plus two forwarding tasks; a harness would verify the model, not remoc",
    "C17": "protocol among >=3 interleaved tasks over typed channels; exclusion and deadlock freedom are interleaving properties, not encodable within reach",
    "C13": "harnesses over ObservableVec + MirroredVecInner exist (kani/harness/c13_vec.rs) but are not registered: the local event path (rch::broadcast -> rch::mpsc -> model queues) did not verify within the time/memory cap on this machine; not claimed rather than reported as success",
    "C14": "depends on the same robs/broadcast event path as C13, which is not within reach of the solver here; the mirror tasks themselves are spawned tasks (not encodable)",
    "C16": "rch::broadcast::Sender::send spawns a re-admission task per lagging subscriber and the subscriber queues are rch::mpsc channels over several tokio primitives; a one-step harness did not fit the cap; not claimed",
    "C18": "rch::io sender/receiver state machines are driven through boxed futures over rch::bin/base channels (serde, spawned tasks); no synchronous kernel could be isolated within the time available; not claimed",
    "C20": "Handle::{into_inner,as_ref,as_mut} go through tokio RwLock owned guards and the AnyStorage hash map keyed by random uuids; not built within the time available; not claimed",
    "C19": "same reason as C12: generated multi-task code racing execution against closed(); no synchronous kernel",
}


def main():
    hs = hreg.load(os.path.join(ROOT, "kani", "harness"))
    props = [json.loads(l)["id"] for l in open(os.path.join(ROOT, "properties.jsonl"))]
    have = {p for h in hs for p in h.props}
    checks = []
    na = []
    for p in props:
        if p in CLAIMS and p in have:
            text, ref = CLAIMS[p]
            n_q = sum(1 for h in hs if p in h.props and h.tier == "quick")
            n_t = sum(1 for h in hs if p in h.props)
            checks.append({
                "property_id": p,
                "quick_cmd": "./check %s quick" % p,
                "thorough_cmd": "./check %s thorough" % p,
                "evidence_file": "/verif/evidence/%s.json" % p,
                "replay_cmd_template": "./check --replay {path}",
                "engine": "kani",
                "level_claimed": {"category": "other", "text": text + " (%d quick / %d thorough harnesses)" % (n_q, n_t),
                                  "design_ref": ref},
                "level_note": BASE_NOTE,
                "technique": TECH,
            })
        elif p in NOT_APPLICABLE:
            na.append({"property_id": p, "reason": NOT_APPLICABLE[p]})
        else:
            na.append({"property_id": p, "reason": "no solver-based check registered yet for this property (work in progress; see DESIGN.md section 4 for the plan)"})
    try:
        commits = subprocess.run(["git", "-C", "/repo", "log", "--format=%H %s", "--grep=^verif hook"],
                                 capture_output=True, text=True).stdout.strip().splitlines()
    except Exception:
        commits = []
    m = {
        "version": 1,
        "setup_cmd": "./check --setup",
        "hooks": {
            "guard": "cfg(remoc_verif)",
            "enable": "RUSTFLAGS='--cfg remoc_verif' REMOC_VERIF_HARNESS=<generated entry file> cargo kani (set by ./check); the harness tree /verif/kani/harness is compiled into the remoc crate through the include! hook in remoc/src/lib.rs",
            "baseline_off_cmd": "cd /repo && cargo test --workspace --no-fail-fast --offline",
            "source_commits": [c.split()[0] for c in commits],
            "add_only": True,
        },
        "engines": [{
            "name": "kani",
            "path": "/verif/check",
            "serves_properties": [c["property_id"] for c in checks],
            "kind_free_text": "Kani 0.68 (CBMC 6.11, CaDiCaL) over /repo's current source; driver in /verif/driver; harnesses in /verif/kani/harness; environment models in /verif/models",
        }],
        "checks": checks,
        "not_applicable": na,
        "notes": "Exit codes of ./check: 0 all obligations discharged (known findings printed as KNOWN-FINDING), 1 violation (replayed), 2 inconclusive (build failure, timeout, OOM, vacuity, non-reproducing counterexample). Known findings: /verif/known_findings.txt.",
    }
    json.dump(m, open(os.path.join(ROOT, "MANIFEST.json"), "w"), indent=1)
    print("MANIFEST.json: %d checks, %d not_applicable" % (len(checks), len(na)))


if __name__ == "__main__":
    main()
