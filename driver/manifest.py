#!/usr/bin/env python3
"""Regenerates /verif/MANIFEST.json from the table below and the harness registry."""
import json
import os
import subprocess
import sys

ROOT = os.path.dirname(os.path.dirname(os.path.abspath(__file__)))
sys.path.insert(0, os.path.join(ROOT, "driver"))
import harnesses as hreg  # noqa: E402

TECH = "bounded symbolic execution of the real remoc functions with Kani 0.68 -> CBMC 6.11 -> CaDiCaL (SAT); one-step harnesses from arbitrary invariant-satisfying pre-states; counterexamples replayed natively with cargo kani playback"

BASE_NOTE = ("Trusted: Kani/CBMC/CaDiCaL; tokio and tokio-util replaced by the deterministic models in /verif/models "
             "(contracts from the tokio docs, diffed against real tokio by /verif/conformance); tracing off; "
             "fmt::format / RandomState::new stubbed where the harness says so; the written pre-state invariants; "
             "cfg(remoc_verif) add-only hooks. Bounds and what lies outside them are listed per harness in the evidence file.")

# property -> (claim text, design_ref)
CLAIMS = {
    "C02": ("Solver verdict over all 32-bit values for every credit-moving step (use_credits, start_return, provide, "
            "try_request/request, AssignedCredits take/drop) and for the dispatcher's Data/PortData/PortCredits "
            "handlers: each step moves exactly the amount it accounts for, never exceeds the advertised buffer or "
            "chunk size, never returns more than was consumed. The whole-life bound follows by induction over these "
            "atomic steps (single dispatcher task); the induction itself is a paper argument.", "DESIGN.md 4 C02"),
}

NOT_APPLICABLE = {
    "C04": "lives in serde codecs, spawn_blocking serialisation threads and mpsc forwarding tasks; cannot be encoded for the solver (threads, codec loops); the chmux-level root cause of its known loss is decided under C01",
    "C12": "macro-generated multi-task RPC; linearizability of concurrent histories has no single-step kernel and multi-task coroutine execution is out of reach for Kani",
    "C15": "behaviour is tokio's watch cell (replaced by a model here) plus two forwarding tasks; a harness would verify the model, not remoc",
    "C17": "protocol among >=3 interleaved tasks over typed channels; exclusion and deadlock freedom are interleaving properties, not encodable within reach",
    "C19": "same reason as C12: generated multi-task code racing execution against closed(); no synchronous kernel",
}


def main():
    hs = hreg.load(os.path.join(ROOT, "kani", "harness"))
    props = [json.loads(l)["id"] for l in open(os.path.join(ROOT, "properties.jsonl"))]
    have = {p for h in hs for p in h.props}
    checks = []
    na = []
    for p in props:
        if p in CLAIMS and p in have:
            text, ref = CLAIMS[p]
            n_q = sum(1 for h in hs if p in h.props and h.tier == "quick")
            n_t = sum(1 for h in hs if p in h.props)
            checks.append({
                "property_id": p,
                "quick_cmd": "./check %s quick" % p,
                "thorough_cmd": "./check %s thorough" % p,
                "evidence_file": "/verif/evidence/%s.json" % p,
                "replay_cmd_template": "./check --replay {path}",
                "engine": "kani",
                "level_claimed": {"category": "other", "text": text + " (%d quick / %d thorough harnesses)" % (n_q, n_t),
                                  "design_ref": ref},
                "level_note": BASE_NOTE,
                "technique": TECH,
            })
        elif p in NOT_APPLICABLE:
            na.append({"property_id": p, "reason": NOT_APPLICABLE[p]})
        else:
            na.append({"property_id": p, "reason": "no solver-based check registered yet for this property (work in progress; see DESIGN.md section 4 for the plan)"})
    try:
        commits = subprocess.run(["git", "-C", "/repo", "log", "--format=%H %s", "--grep=^verif hook"],
                                 capture_output=True, text=True).stdout.strip().splitlines()
    except Exception:
        commits = []
    m = {
        "version": 1,
        "setup_cmd": "./check --setup",
        "hooks": {
            "guard": "cfg(remoc_verif)",
            "enable": "RUSTFLAGS='--cfg remoc_verif' REMOC_VERIF_HARNESS=<generated entry file> cargo kani (set by ./check); the harness tree /verif/kani/harness is compiled into the remoc crate through the include! hook in remoc/src/lib.rs",
            "baseline_off_cmd": "cd /repo && cargo test --workspace --no-fail-fast --offline",
            "source_commits": [c.split()[0] for c in commits],
            "add_only": True,
        },
        "engines": [{
            "name": "kani",
            "path": "/verif/check",
            "serves_properties": [c["property_id"] for c in checks],
            "kind_free_text": "Kani 0.68 (CBMC 6.11, CaDiCaL) over /repo's current source; driver in /verif/driver; harnesses in /verif/kani/harness; environment models in /verif/models",
        }],
        "checks": checks,
        "not_applicable": na,
        "notes": "Exit codes of ./check: 0 all obligations discharged (known findings printed as KNOWN-FINDING), 1 violation (replayed), 2 inconclusive (build failure, timeout, OOM, vacuity, non-reproducing counterexample). Known findings: /verif/known_findings.txt.",
    }
    json.dump(m, open(os.path.join(ROOT, "MANIFEST.json"), "w"), indent=1)
    print("MANIFEST.json: %d checks, %d not_applicable" % (len(checks), len(na)))


if __name__ == "__main__":
    main()
