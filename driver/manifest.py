#!/usr/bin/env python3
"""Regenerates /verif/MANIFEST.json from the table below and the harness registry."""
import json
import os
import subprocess
import sys

ROOT = os.path.dirname(os.path.dirname(os.path.abspath(__file__)))
sys.path.insert(0, os.path.join(ROOT, "driver"))
import harnesses as hreg  # noqa: E402

TECH = "bounded symbolic execution of the real remoc functions with Kani 0.68 -> CBMC 6.11 -> CaDiCaL (SAT); one-step harnesses from arbitrary invariant-satisfying pre-states; counterexamples replayed natively with cargo kani playback"

BASE_NOTE = ("Trusted: Kani/CBMC/CaDiCaL; tokio and tokio-util replaced by the deterministic models in /verif/models "
             "(contracts from the tokio docs; their synchronous operations are diffed against real tokio 1.49 by /verif/conformance during setup); tracing off; "
             "fmt::format / RandomState::new stubbed where the harness says so; the written pre-state invariants; "
             "cfg(remoc_verif) add-only hooks. Bounds and what lies outside them are listed per harness in the evidence file.")

# property -> (claim text, design_ref)
CLAIMS = {
    "C01": ("Solver verdict, for all flag/port/credit values and payloads up to the stated lengths, that (a) the dispatcher's data-path steps (handle_event(SendData), handle_received_msg(Data)) pass payload bytes and first/last flags through unchanged to exactly the addressed port and reject data for ports that are not connected or already finished, and (b) Sender::try_send splits a message into chunks of at most the advertised chunk size, marks first/last exactly on the first/final chunk, preserves bytes and order, and on failure queues nothing or an unfinished prefix. The receiving coroutines (recv_any / recv_chunk) and the async send paths are NOT decided: one poll of them does not finish symbolic execution (DESIGN.md 0.6); end-to-end exactly-once delivery is a composition argument over the decided steps and FIFO queues, not a solver result.",
            'DESIGN.md 0, 4 C01'),
    "C02": ("Solver verdict over all 32-bit values for every credit-moving step (use_credits, start_return/return_flush, "
            "provide, try_request/request, AssignedCredits take/drop) and for the dispatcher's PortCredits/ReturnCredits "
            "steps: each step moves exactly the amount it accounts for, never exceeds the advertised buffer, never returns "
            "more than was consumed. The whole-life bound follows by induction over these atomic steps (single dispatcher "
            "task); the induction itself is a paper argument.", "DESIGN.md 4 C02"),
    "C03": ('Safety core of liveness, decided by the solver: no credit is created or lost by any credit kernel (full 32-bit ranges) nor by Sender::try_send on any outcome incl. a full event queue (the leak found there was repaired, see known_findings.txt), provide/close and PortNumber::drop wake every registered waiter (a cancelled waiter does not absorb the wake-up), after any start_return the receiver holds back less than the threshold so an idle receiver leaves the sender >= 4 credits, and every port message Sender::connect composes carries at least one port when 4 credits are available. The async paths (send, connect loop, request polling) and the fairness part of liveness are not decided.',
            'DESIGN.md 4 C03'),
    "C05": ("Pairing kernels only: the dispatcher's Accepted step hands the accepting side a sender/receiver pair for exactly "
            "(local port, requested remote port) and answers the peer with exactly that pair of numbers (solver verdict for all "
            "port numbers). The rch layer (serde callbacks, forwarding, interlock) is outside.", "DESIGN.md 4 C05"),
    "C06": ("Port-level observation only: for all pool/flag values, a credit request on a port whose dispatcher is gone "
            "returns Ready(Err(ChMux)) on its first poll (never Pending) and try_request returns ChMux; closed pools yield the "
            "documented Closed{gracefully}; Reset/Hello received on an established connection terminate the dispatcher step "
            "with an error. Timeouts, run()'s select loop and typed channels are outside.", "DESIGN.md 4 C06"),
    "C07": ("Solver verdict over all flag combinations for the port-table kernels: maybe_free_port releases the entry and the "
            "port number iff all four conditions hold; each local drop/close event and each remote finish/close "
            "notification sets exactly its own flag, emits exactly its frame and releases iff all four; should_terminate "
            "equals the documented formula. Task reclamation and the two-sided Goodbye exchange are outside.", "DESIGN.md 4 C07"),
    "C08": ("No-panic and protocol-error classification, decided by the solver (Kani's panic/overflow/bounds checks on) for one dispatcher step per message kind from dispatcher states with symbolic flags: notifications and data for unknown, connecting, finished or already-closed ports, repeated notifications, over-full listener queues, Reset/Hello, credit overflow - all end in ChMuxError::Protocol/Reset with no state change; a newly created port polices receiving with exactly the locally advertised buffer. Frame decoding of well-formed frames is under C09. Arbitrary byte strings and PortData frames are not registered (too heavy).",
            'DESIGN.md 4 C08'),
    "C09": ("Differential check against an independently written reference layout of protocol v3: for every message kind, with every field and flag symbolic over its full range, the real encoder's bytes equal the reference bytes and the real decoder accepts the reference bytes and yields the same fields (PortData as a family 0..2 ports, ids present/absent = v2 form); ids are emitted in OpenPort iff the peer announced version >= 3; every port message the sender composes fits the frame length limit the peer derives from its advertised chunk size (all u32 chunk sizes and credit values; the overrun found there was repaired, see known_findings.txt).",
            'DESIGN.md 4 C09'),
    "C10": ("Exactly-once resolution kernels, decided per step for all port numbers/ids/flags: ConnectReq either registers "
            "the port and emits one OpenPort or is refused locally with Rejected; PortOpened/Rejected resolve exactly the "
            "responder registered under that client port once (repeat, connected or unknown port = Protocol error); OpenPort "
            "rejects duplicates and over-full queues and queues exactly one request in the queue selected by the wait flag; "
            "Accepted/Rejected events answer the peer and forget the outstanding request. Connect futures, the request "
            "crediter and exhaustion policies are outside.", "DESIGN.md 4 C10"),
    "C11": ("Port-level close/drop kernels: ReceiveClose closes the credit pool gracefully, ReceiveFinish non-gracefully, "
            "both raise the hang-up flag, fire notifiers once and wake blocked senders; credit requests on closed pools "
            "return the documented classification (incl. the graceful-close override); ReceiverClosed/ReceiverDropped/"
            "SenderDropped events emit exactly ReceiveClose/ReceiveFinish/SendFinish. Typed channels and eventual "
            "observability are outside.", "DESIGN.md 4 C11"),
}

CLAIMS['C13'] = ('One-step solver verdict for ObservableVec and ObservableVecDeque: for every mutator of the public API (push/pop/insert/remove/swap_remove*/get_mut/iter_mut/fill/resize/truncate/clear/retain/shrink_to_fit/done) from contents of length 0..=3 with symbolic elements and values, the events the mutator hands to robs::send_event, applied in order by the real Mirrored*Inner::handle_event to a mirror that equalled the contents, leave the mirror equal to the collection, and done is reported iff done() was called. Lengths, indices and retain predicates are concrete per harness (families), element values symbolic. Hash map/set, list, the event transport (broadcast/mpsc/codecs/mirror tasks), incremental subscriptions and remote mirrors are not decided.', 'DESIGN.md 0.7, 4 C13')

CLAIMS['C14'] = ('Detection kernels only: the real Mirrored{Vec,VecDeque}Inner::handle_event applies an index event iff the index is valid for the current contents and otherwise returns InvalidIndex(index) leaving the contents untouched; a push beyond max_size returns MaxSizeExceeded (solver verdict over contents of length 2, index 0..=4 resp. full usize where no memmove is involved). Lag markers, drop-before-done, connection failures and the mirror task that stores the error are not decided.', 'DESIGN.md 0.7, 4 C14')

CLAIMS['C18'] = ('Accounting kernels only: io::Receiver::poll_read on a buffered multi-segment message delivers exactly min(first segment, read-buffer room, remaining announced size) bytes, in order, advances the counter by exactly that, keeps the rest of the message buffered and reports end of file once the announced size is reached (sized/unsized mode and all u64 counters symbolic); io::Sender::poll_shutdown of a sized sender succeeds iff exactly the fixed size was written, else UnexpectedEof. poll_write, the byte transport (rch::bin over chmux), size announcement of unsized channels and remote halves are not decided.', 'DESIGN.md 0.7, 4 C18')

CLAIMS['C04'] = ('Byte-stream kernels only: rch::base::io::LimitedBytesWriter (the in-memory writer whose overflow decides between one buffer and chunk streaming) accepts a write iff the total stays within the limit, stores accepted bytes in order, stays refused after the first refusal and never hands out a truncated buffer (limit symbolic, full usize); ChannelBytesReader (the reader that turns streamed chunks back into a byte stream) yields exactly the chunk bytes in order for any read size and ends cleanly only when no failure marker was sent. The per-sender prefix property itself (base::Sender/Receiver, mpsc forwarding, serde codecs, the spawn_blocking helper thread) is not decided.', 'DESIGN.md 0.7, 6')

NOT_APPLICABLE = {
    "C12": "macro-generated multi-task RPC; linearizability of concurrent histories has no single-step kernel and multi-task coroutine execution is out of reach for Kani",
    "C15": "behaviour is tokio's watch cell (replaced by a model here) plus two forwarding tasks; a harness would verify the model, not remoc",
    "C17": "protocol among >=3 interleaved tasks over typed channels; exclusion and deadlock freedom are interleaving properties, not encodable within reach",
    "C16": "rch::broadcast::Sender::send fans out through rch::mpsc channels (several tokio primitives each) and spawns a re-admission task per lagging subscriber; the emitted value travels inside nested enums whose discriminants CBMC no longer sees as constant (measured: 500 k symex steps for a send without subscribers, DESIGN.md 0.6), and lag/re-admission is an interleaving of tasks; no harness fits the cap, not claimed",
    "C20": "Handle::{into_inner,as_ref,as_mut} are coroutines over tokio RwLock owned guards and Box<dyn Any> down-casts; Kani 0.68 has no definition for <dyn Any>::is/downcast (measured: 'missing_definition' failure) and the release/confinement parts live in serde impls and spawned tasks; not encodable, not claimed",
    "C19": "same reason as C12: generated multi-task code racing execution against closed(); no synchronous kernel",
}


def main():
    hs = hreg.load(os.path.join(ROOT, "kani", "harness"))
    props = [json.loads(l)["id"] for l in open(os.path.join(ROOT, "properties.jsonl"))]
    have = {p for h in hs for p in h.props}
    checks = []
    na = []
    for p in props:
        if p in CLAIMS and p in have:
            text, ref = CLAIMS[p]
            n_q = sum(1 for h in hs if p in h.props and h.tier == "quick")
            n_t = sum(1 for h in hs if p in h.props and h.tier in ("quick", "thorough"))
            checks.append({
                "property_id": p,
                "quick_cmd": "./check %s quick" % p,
                "thorough_cmd": "./check %s thorough" % p,
                "evidence_file": "/verif/evidence/%s.json" % p,
                "replay_cmd_template": "./check --replay {path}",
                "engine": "kani",
                "level_claimed": {"category": "other", "text": text + " (%d quick / %d thorough harnesses)" % (n_q, n_t),
                                  "design_ref": ref},
                "level_note": BASE_NOTE,
                "technique": TECH,
            })
        elif p in NOT_APPLICABLE:
            na.append({"property_id": p, "reason": NOT_APPLICABLE[p]})
        else:
            na.append({"property_id": p, "reason": "no solver-based check registered yet for this property (work in progress; see DESIGN.md section 4 for the plan)"})
    try:
        commits = subprocess.run(["git", "-C", "/repo", "log", "--format=%H %s", "--grep=^verif hook"],
                                 capture_output=True, text=True).stdout.strip().splitlines()
    except Exception:
        commits = []
    m = {
        "version": 1,
        "setup_cmd": "./check --setup",
        "hooks": {
            "guard": "cfg(remoc_verif)",
            "enable": "RUSTFLAGS='--cfg remoc_verif' REMOC_VERIF_HARNESS=<generated entry file> cargo kani (set by ./check); the harness tree /verif/kani/harness is compiled into the remoc crate through the include! hook in remoc/src/lib.rs",
            "baseline_off_cmd": "cd /repo && cargo test --workspace --no-fail-fast --offline",
            "source_commits": [c.split()[0] for c in commits],
            "add_only": True,
        },
        "engines": [{
            "name": "kani",
            "path": "/verif/check",
            "serves_properties": [c["property_id"] for c in checks],
            "kind_free_text": "Kani 0.68 (CBMC 6.11, CaDiCaL) over /repo's current source; driver in /verif/driver; harnesses in /verif/kani/harness; environment models in /verif/models",
        }],
        "checks": checks,
        "not_applicable": na,
        "notes": "Exit codes of ./check: 0 all obligations discharged (known findings printed as KNOWN-FINDING), 1 violation (replayed), 2 inconclusive (build failure, timeout, OOM, vacuity, non-reproducing counterexample). Known findings: /verif/known_findings.txt.",
    }
    json.dump(m, open(os.path.join(ROOT, "MANIFEST.json"), "w"), indent=1)
    print("MANIFEST.json: %d checks, %d not_applicable" % (len(checks), len(na)))


if __name__ == "__main__":
    main()
