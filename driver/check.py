#!/usr/bin/env python3
"""Driver: ./check <PROPERTY> quick|thorough   |   ./check --replay <path>   |   ./check --setup

Runs the Kani proof harnesses of one property against /repo's current working tree
(the harness tree is compiled into the remoc crate, see kani/harness/mod.rs), parses
CBMC's verdicts, handles known findings, replays counterexamples and writes
evidence/<id>.json.

Exit codes: 0 = every obligation discharged (known findings reported as KNOWN-FINDING),
            1 = violation (line `VIOLATION property=<id> replay=<path>`),
            2 = inconclusive (build failure, timeout, out of memory, vacuous harness,
                unwinding bound too small, counterexample that does not replay).
"""
import concurrent.futures
import json
import os
import re
import resource
import shutil
import subprocess
import sys
import time

ROOT = os.path.dirname(os.path.dirname(os.path.abspath(__file__)))
sys.path.insert(0, os.path.join(ROOT, "driver"))
import gencrate  # noqa: E402
import harnesses as hreg  # noqa: E402

WORK = os.path.join(ROOT, ".work")
CRATE = os.path.join(WORK, "crate")
LOGS = os.path.join(WORK, "logs")
FEATURES = "serde,rch,robs,robj,default-codec-postbag"
NSHARDS = int(os.environ.get("VERIF_SHARDS", "6"))  # x DEFAULT_MEM_GB must stay below the 62 GB of the sandbox in practice (most harnesses need 2-6 GB)
DEFAULT_CAP = {"quick": int(os.environ.get("VERIF_CAP", "420")), "thorough": int(os.environ.get("VERIF_CAP", "1800"))}
DEFAULT_MEM_GB = int(os.environ.get("VERIF_MEM_GB", "20"))

TRUSTED_BASE = [
    "Kani 0.68.0 / CBMC 6.11.0 / CaDiCaL (compiler front end rustc->MIR->GOTO, bit-precise semantics, SAT back end)",
    "tokio replaced by /verif/models/tokio (single-threaded deterministic model of mpsc/oneshot/watch/locks/spawn/time; contracts from tokio docs; the synchronous operations the harnesses observe channels through are diffed natively against real tokio 1.49 by /verif/conformance during setup)",
    "tokio-util replaced by /verif/models/tokio-util (ReusableBoxFuture = Pin<Box<dyn Future>>; codec stubs unreachable)",
    "tracing replaced by /verif/models/tracing: every event/span macro and #[instrument] is a no-op (real tracing reaches code that crashes the Kani compiler)",
    "alloc::fmt::format stubbed to return an empty String where a harness says so (error texts are not the subject)",
    "std::hash::RandomState::new stubbed to fixed keys where a harness says so (hash-map keys are then drawn from concrete sets)",
    "hooks in remoc guarded by cfg(remoc_verif): add-only accessors/constructors, no change to existing lines",
    "representation invariants written in each harness (assume statements) describe all reachable pre-states",
]


def cargo_env():
    env = dict(os.environ)
    env["CARGO_NET_OFFLINE"] = "true"
    env["RUSTFLAGS"] = "--cfg remoc_verif"
    env["REMOC_VERIF_HARNESS"] = os.path.join(CRATE, "harness_entry.rs")
    env.pop("CARGO_TARGET_DIR", None)
    return env


def limit_mem(gb):
    def f():
        try:
            resource.setrlimit(resource.RLIMIT_AS, (gb << 30, gb << 30))
        except Exception:
            pass
    return f


def target_dir(k):
    return os.path.join(WORK, "target-%d" % k)


def kani_cmd(tdir, names, cap, extra=()):
    cmd = ["cargo", "kani", "-Z", "stubbing", "-Z", "unstable-options", "-Z", "restrict-vtable",
           "--no-default-features", "--features", FEATURES, "--target-dir", tdir, "--harness-timeout", "%ds" % cap,
           "--exact"]
    for n in names:
        cmd += ["--harness", n]
    cmd += list(extra)
    # must be last: without a larger field-sensitivity bound CBMC stops propagating constants through
    # every heap object above 64 bytes (Arc<Mutex<..>> state then looks symbolic and nothing terminates)
    cmd += ["--cbmc-args", "--max-field-sensitivity-array-size", "4096"]
    return cmd


def prepare():
    os.makedirs(LOGS, exist_ok=True)
    gencrate.generate(ROOT, CRATE)


def ensure_target(k):
    """Target dirs 1.. are seeded from target-0 (built by setup) to avoid rebuilding dependencies."""
    td = target_dir(k)
    if k > 0 and not os.path.isdir(td) and os.path.isdir(target_dir(0)):
        subprocess.run(["cp", "-a", "--reflink=auto", target_dir(0), td], check=False)
    return td


def setup():
    prepare()
    hs = [h for h in hreg.load(os.path.join(ROOT, "kani", "harness")) if h.name == "c00_probe_build"]
    names = [h.full_name for h in hs]
    t0 = time.time()
    log = os.path.join(LOGS, "setup.log")
    with open(log, "w") as f:
        r = subprocess.run(kani_cmd(target_dir(0), names, 300), cwd=CRATE, env=cargo_env(), stdout=f,
                           stderr=subprocess.STDOUT)
    ok = r.returncode == 0 and "VERIFICATION:- SUCCESSFUL" in open(log).read()
    print("setup: kani build of remoc with models %s in %.0fs (log %s)" % ("ok" if ok else "FAILED", time.time() - t0, log))
    if not ok:
        sys.stdout.write(open(log).read()[-4000:])
        return 2
    for k in range(1, NSHARDS):
        if os.path.isdir(target_dir(k)):
            shutil.rmtree(target_dir(k))
        ensure_target(k)
    # native conformance of the tokio model against real tokio (validates the stub, decides nothing)
    clog = os.path.join(LOGS, "conformance.log")
    try:
        env = dict(os.environ)
        env["CARGO_NET_OFFLINE"] = "true"
        env["CARGO_TARGET_DIR"] = os.path.join(WORK, "conformance-target")
        with open(clog, "w") as f:
            r = subprocess.run(["cargo", "run", "--offline", "--quiet"], cwd=os.path.join(ROOT, "conformance"), env=env,
                               stdout=f, stderr=subprocess.STDOUT, timeout=900)
        tail = open(clog).read().strip().splitlines()[-1:] or [""]
        if r.returncode == 1 and "DIFF" in open(clog).read():
            print("setup: tokio model DIFFERS from real tokio, see %s" % clog)
            sys.stdout.write(open(clog).read()[-2000:])
            return 2
        print("setup: model conformance: %s" % (tail[0] if r.returncode == 0 else "not run (build problem, see %s)" % clog))
    except Exception as e:  # never let the auxiliary check break setup
        print("setup: model conformance not run (%s)" % e)
    return 0


class Result:
    def __init__(self, h):
        self.h = h
        self.status = "missing"  # success | failed | timeout | error | missing
        self.time_s = 0.0
        self.solver_s = 0.0
        self.queries = 0
        self.checks_total = 0
        self.checks_failed = 0
        self.covers_sat = 0
        self.covers_total = 0
        self.failed_checks = []
        self.vars = 0
        self.clauses = 0
        self.note = ""

    @property
    def verdict(self):
        """pass | violation | inconclusive"""
        if self.status == "success":
            need = self.covers_total if self.h.covers == "all" else min(1, self.covers_total)
            if self.covers_sat < need:
                return "inconclusive"  # vacuous
            return "pass"
        if self.status == "failed":
            real = [c for c in self.failed_checks if not re.search(r"unwinding assertion|not currently supported|unsupported", c)]
            if real:
                return "violation"
            return "inconclusive"
        return "inconclusive"


def parse_log(text, hs):
    res = {h.full_name: Result(h) for h in hs}
    parts = re.split(r"^Checking harness (.+?)\.\.\.\s*$", text, flags=re.M)
    # parts: [pre, name1, body1, name2, body2, ...]
    for i in range(1, len(parts) - 1, 2):
        name, body = parts[i].strip(), parts[i + 1]
        r = res.get(name)
        if r is None:
            continue
        m = re.search(r"VERIFICATION:- (SUCCESSFUL|FAILED)", body)
        if m:
            r.status = "success" if m.group(1) == "SUCCESSFUL" else "failed"
        if re.search(r"CBMC timed out|timed out after|Status: TIMEOUT", body):
            r.status = "timeout"
        if re.search(r"Status: ERROR|out of memory|std::bad_alloc|CBMC failed|Killed", body) and r.status != "success":
            r.status = "error"
        m = re.search(r"Verification Time: ([\d.]+)s", body)
        if m:
            r.time_s = float(m.group(1))
        sol = re.findall(r"Runtime decision procedure: ([\d.eE+-]+)s", body)
        r.queries = len(sol)
        r.solver_s = sum(float(x) for x in sol)
        m = re.search(r"\*\* (\d+) of (\d+) failed", body)
        if m:
            r.checks_failed, r.checks_total = int(m.group(1)), int(m.group(2))
        m = re.search(r"\*\* (\d+) of (\d+) cover properties satisfied", body)
        if m:
            r.covers_sat, r.covers_total = int(m.group(1)), int(m.group(2))
        vc = re.findall(r"^(\d+) variables, (\d+) clauses", body, flags=re.M)
        if vc:
            r.vars, r.clauses = int(vc[-1][0]), int(vc[-1][1])
        fc = re.findall(r"^Failed Checks: (.*)$", body, flags=re.M)
        r.failed_checks = fc
        if r.status == "failed" and not fc:
            # failure without an assertion (e.g. reachability of unsupported code): keep body tail as note
            r.note = body[-600:]
    return res


def run_shard(k, hs, tier, tag):
    td = ensure_target(k)
    cap = max((h.cap or DEFAULT_CAP[tier]) for h in hs)
    mem = max((h.mem or DEFAULT_MEM_GB) for h in hs)
    log = os.path.join(LOGS, "%s-shard%d.log" % (tag, k))
    cmd = kani_cmd(td, [h.full_name for h in hs], cap)
    t0 = time.time()
    with open(log, "w") as f:
        f.write("$ " + " ".join(cmd) + "\n")
        f.flush()
        try:
            subprocess.run(cmd, cwd=CRATE, env=cargo_env(), stdout=f, stderr=subprocess.STDOUT,
                           timeout=cap * len(hs) + 600, preexec_fn=limit_mem(mem))
        except subprocess.TimeoutExpired:
            f.write("\nDRIVER: shard timed out\n")
    text = open(log, errors="replace").read()
    res = parse_log(text, hs)
    build_failed = "error: could not compile" in text or "Failed to execute cargo" in text or "error[E" in text
    for r in res.values():
        if r.status == "missing":
            r.note = "build failed" if build_failed else "no verdict in log (timeout or crash)"
    return res, log, time.time() - t0, cmd


def load_known():
    known, fixed = {}, []
    p = os.path.join(ROOT, "known_findings.txt")
    if os.path.exists(p):
        for line in open(p):
            line = line.strip()
            if not line or line.startswith("#"):
                continue
            if line.startswith("fixed:"):
                fixed.append(line)
                continue
            m = re.match(r"(\S+)\s+property=(\S+)\s+harness=(\S+)\s+(.*)", line)
            if m:
                known[m.group(3)] = {"id": m.group(1), "property": m.group(2), "what": m.group(4)}
    return known, fixed


def shard_plan(hs, n):
    timings = {}
    tp = os.path.join(ROOT, "kani", "timings.json")
    if os.path.exists(tp):
        try:
            timings = json.load(open(tp))
        except Exception:
            timings = {}
    hs = sorted(hs, key=lambda h: -timings.get(h.name, 20.0))
    n = max(1, min(n, len(hs)))
    shards = [[] for _ in range(n)]
    load = [0.0] * n
    for h in hs:
        i = load.index(min(load))
        shards[i].append(h)
        load[i] += timings.get(h.name, 20.0) + 2.0
    return [s for s in shards if s]


def replay_counterexample(prop, r, shard_k):
    """Re-runs the failing harness with concrete playback, then executes the generated unit test
    natively (`cargo kani playback`) against the same real code. Returns (path, reproduced)."""
    rdir = os.path.join(os.environ.get("VERIF_EVIDENCE_DIR") or os.path.join(ROOT, "evidence"), "replay", prop)
    os.makedirs(rdir, exist_ok=True)
    path = os.path.join(rdir, r.h.name + ".json")
    info = {"property": prop, "harness": r.h.full_name, "failed_checks": r.failed_checks,
            "functions_encoded": r.h.fns, "bounds": r.h.bounds}
    # 1. print the concrete playback test
    td = ensure_target(shard_k)
    cmd = kani_cmd(td, [r.h.full_name], r.h.cap or 600, ["-Z", "concrete-playback", "--concrete-playback=print"])
    try:
        p = subprocess.run(cmd, cwd=CRATE, env=cargo_env(), stdout=subprocess.PIPE, stderr=subprocess.STDOUT,
                           timeout=(r.h.cap or 600) + 600, text=True)
        out = p.stdout
    except subprocess.TimeoutExpired:
        out = ""
    m = re.search(r"```\s*\n(.*?)```", out, flags=re.S)
    test_src = m.group(1) if m else ""
    info["playback_test"] = test_src
    info["how_to_replay"] = "./check --replay %s  (runs `cargo kani playback` on the recorded values against /repo)" % path
    reproduced = None
    if test_src:
        reproduced, detail = native_playback(r.h, test_src)
        info["native_playback"] = detail
    info["reproduced_natively"] = reproduced
    json.dump(info, open(path, "w"), indent=1)
    return path, reproduced


def native_playback(h, test_src):
    """Compile the harness tree natively (cfg(kani) with Kani's playback library) with the recorded
    concrete values appended to the harness file, and run it: it must panic."""
    m = re.search(r"fn (kani_concrete_playback_\w+)", test_src)
    if not m:
        return None, "no playback test name"
    tname = m.group(1)
    tree = os.path.join(WORK, "replay-harness")
    if os.path.isdir(tree):
        shutil.rmtree(tree)
    shutil.copytree(os.path.join(ROOT, "kani", "harness"), tree)
    with open(os.path.join(tree, os.path.basename(h.file)), "a") as f:
        f.write("\n" + test_src + "\n")
    entry = os.path.join(WORK, "replay_entry.rs")
    open(entry, "w").write("#[cfg(kani)]\n#[path = \"%s/mod.rs\"]\nmod verif_harness;\n" % tree)
    env = cargo_env()
    env["REMOC_VERIF_HARNESS"] = entry
    cmd = ["cargo", "kani", "playback", "-Z", "concrete-playback", "--no-default-features", "--features", FEATURES,
           "--", tname]
    try:
        p = subprocess.run(cmd, cwd=CRATE, env=env, stdout=subprocess.PIPE, stderr=subprocess.STDOUT, timeout=1200,
                           text=True)
    except subprocess.TimeoutExpired:
        return None, "native playback timed out"
    out = p.stdout[-3000:]
    if re.search(r"test result: FAILED|panicked at", p.stdout) and re.search(r"\b1 failed|FAILED", p.stdout):
        return True, out
    if re.search(r"test result: ok\. 1 passed", p.stdout):
        return False, out
    return None, out


def write_evidence(prop, tier, seed, results, wall, cmds, known_lines, violations, inconclusive):
    hs = [r.h for r in results]
    obligations = len(results)
    discharged = sum(1 for r in results if r.verdict == "pass")
    nontrivial = sum(1 for r in results if r.verdict == "pass" and r.covers_sat > 0)
    samples = []
    for r in results:
        s = r.h.to_json()
        s.update({"verdict": r.verdict, "cbmc_status": r.status, "checks": r.checks_total,
                  "checks_failed": r.checks_failed, "covers": "%d/%d" % (r.covers_sat, r.covers_total),
                  "solver_queries": r.queries, "solver_s": round(r.solver_s, 3), "verification_s": round(r.time_s, 2),
                  "sat_vars": r.vars, "sat_clauses": r.clauses, "failed_checks": r.failed_checks[:6]})
        if r.note:
            s["note"] = r.note[-300:]
        samples.append(s)
    fns = sorted({f for h in hs for f in h.fns})
    ev = {
        "property_id": prop,
        "tier": tier,
        "seed": seed,
        "level": "other",
        "coverage": {
            "explanation": "Bounded symbolic verification of the real remoc functions with Kani/CBMC: each harness "
                           "executes the named functions from /repo's current source on symbolic inputs (within the "
                           "stated bounds, unwinding assertions on) and the SAT solver decides every assertion for all "
                           "values at once. Not an unbounded proof: everything outside the per-harness bounds and the "
                           "'outside' notes is not covered.",
            "obligations": obligations,
            "discharged": discharged,
            "evaluations": sum(r.checks_total for r in results) or obligations,
            "distinct_nontrivial": nontrivial,
            "rule": "evaluations = property checks (assertions incl. Kani's built-in overflow/bounds/panic checks) "
                    "decided by the solver over all symbolic inputs; a harness counts as non-trivial when it verified "
                    "and every kani::cover! reachability witness in it was SATISFIED",
            "samples": samples,
            "checker_cmd": " ; ".join(" ".join(c) for c in cmds)[:4000],
            "trusted_base": TRUSTED_BASE,
            "functions_encoded": fns,
            "solver_queries": sum(r.queries for r in results),
            "solver_s": round(sum(r.solver_s for r in results), 3),
            "cbmc_verification_s": round(sum(r.time_s for r in results), 2),
            "known_findings_reported": known_lines,
            "inconclusive": inconclusive,
            "exhaustive": False,
        },
        "assumptions": TRUSTED_BASE,
        "wall_s": round(wall, 2),
        "violations": len(violations),
    }
    evdir = os.environ.get("VERIF_EVIDENCE_DIR") or os.path.join(ROOT, "evidence")  # experiments on modified trees write elsewhere
    os.makedirs(evdir, exist_ok=True)
    json.dump(ev, open(os.path.join(evdir, prop + ".json"), "w"), indent=1)


def check(prop, tier):
    t0 = time.time()
    seed = int(os.environ.get("VERIF_SEED", "0") or 0)
    prepare()
    allh = hreg.load(os.path.join(ROOT, "kani", "harness"))
    run_off = bool(os.environ.get("VERIF_ONLY"))  # development runs may name unregistered harnesses
    hs = [h for h in allh if (prop in h.props or (prop == "ALL" and h.props))
          and (h.tier == "quick" or (tier == "thorough" and h.tier == "thorough") or (run_off and h.tier == "off"))]
    only = os.environ.get("VERIF_ONLY")
    if only:
        hs = [h for h in hs if re.search(only, h.name)]
    if not hs:
        print("no harness registered for %s/%s" % (prop, tier))
        return 2
    # VERIF_SEED only permutes job order
    if seed:
        import random
        random.Random(seed).shuffle(hs)
    shards = shard_plan(hs, NSHARDS)
    tag = "%s-%s" % (prop, tier)
    results, cmds = {}, []
    shard_of = {}
    with concurrent.futures.ThreadPoolExecutor(max_workers=len(shards)) as ex:
        futs = {ex.submit(run_shard, k, s, tier, tag): k for k, s in enumerate(shards)}
        for fut in concurrent.futures.as_completed(futs):
            res, log, dt, cmd = fut.result()
            cmds.append(cmd)
            for name, r in res.items():
                results[name] = r
                shard_of[name] = futs[fut]
    # Second pass: a harness without a verdict (its shard's kani-driver died, the machine was busy, CBMC hit
    # the wall or memory cap) is re-run once on its own with a larger cap before it is called inconclusive.
    retry = [r.h for r in results.values() if r.status in ("missing", "timeout", "error")]
    if retry and not os.environ.get("VERIF_NO_RETRY"):
        def rerun(idx_h):
            idx, h = idx_h
            h2cap = int((h.cap or DEFAULT_CAP[tier]) * 1.5)
            old_cap = h.cap
            h.cap = h2cap
            try:
                return run_shard(idx % NSHARDS, [h], tier, tag + "-retry%d" % idx)
            finally:
                h.cap = old_cap
        with concurrent.futures.ThreadPoolExecutor(max_workers=min(len(retry), max(1, NSHARDS // 2))) as ex:
            for (res, log, dt, cmd), h in zip(ex.map(rerun, list(enumerate(retry))), retry):
                cmds.append(cmd)
                for name, r in res.items():
                    r.note = (r.note + " " if r.note else "") + "(second attempt, run alone)"
                    results[name] = r
    known, _fixed = load_known()
    known_lines, violations, inconclusive = [], [], []
    ordered = [results[h.full_name] for h in sorted(hs, key=lambda h: h.name)]
    for r in ordered:
        v = r.verdict
        line = "  %-52s %-12s checks=%d covers=%d/%d cbmc=%.1fs solver=%.2fs" % (
            r.h.name, v.upper(), r.checks_total, r.covers_sat, r.covers_total, r.time_s, r.solver_s)
        print(line)
        if r.h.known:
            k = known.get(r.h.name)
            if v == "violation" and k and (k["property"] == prop or prop in r.h.props):
                msg = "KNOWN-FINDING: property=%s %s %s" % (prop, k["id"], k["what"])
                print(msg)
                known_lines.append(msg)
                r.note = "expected failure: reproducer of known finding %s" % k["id"]
            elif v == "violation":
                violations.append(r)  # reproducer fails but finding is not listed
            elif v == "pass":
                r.note = "reproducer of %s no longer fails (finding absent in this tree)" % r.h.known
            else:
                inconclusive.append(r.h.name + ": " + (r.note or r.status))
            continue
        if v == "violation":
            violations.append(r)
        elif v == "inconclusive":
            why = r.note or r.status
            if r.status == "success":
                why = "vacuous: %d of %d reachability witnesses unsatisfied" % (r.covers_total - r.covers_sat, r.covers_total)
            elif r.status == "failed":
                why = "only unwinding/unsupported-construct failures: " + "; ".join(r.failed_checks[:3])
            inconclusive.append(r.h.name + ": " + why)

    rc = 0
    confirmed = []
    # Counterexamples are replayed natively before anything is reported.  Replaying is slow (two more builds per
    # harness), so once one counterexample of this run has been confirmed the remaining failing harnesses are
    # reported alongside it without their own replay (VERIF_MAX_REPLAY raises the number).
    max_replay = int(os.environ.get("VERIF_MAX_REPLAY", "1"))
    violations.sort(key=lambda r: r.time_s)
    unreplayed = []
    for r in violations:
        if sum(1 for c in confirmed if c[2]) >= max_replay and not os.environ.get("VERIF_NO_REPLAY") == "1":
            unreplayed.append(r)
            continue
        if os.environ.get("VERIF_NO_REPLAY") == "1":
            # development aid for sweeps over many modified trees: record the solver's verdict without the
            # (slow) native replay; never used by the registered commands
            rdir = os.path.join(os.environ.get("VERIF_EVIDENCE_DIR") or os.path.join(ROOT, "evidence"), "replay", prop)
            os.makedirs(rdir, exist_ok=True)
            path = os.path.join(rdir, r.h.name + ".json")
            json.dump({"property": prop, "harness": r.h.full_name, "failed_checks": r.failed_checks,
                       "note": "replay skipped (VERIF_NO_REPLAY)"}, open(path, "w"), indent=1)
            confirmed.append((r, path, None))
            continue
        path, reproduced = replay_counterexample(prop, r, shard_of.get(r.h.full_name, 0))
        if reproduced is False:
            inconclusive.append(r.h.name + ": counterexample did not reproduce natively (encoding or model suspect), see " + path)
            continue
        confirmed.append((r, path, reproduced))
    if confirmed:
        for r in unreplayed:
            r.note = "failed as well; not replayed separately (another counterexample of this run was confirmed natively)"
    else:
        for r in unreplayed:
            inconclusive.append(r.h.name + ": failing, not replayed")
    # known-finding reproducers count as discharged obligations for evidence purposes only if they behaved as expected
    for r in ordered:
        if r.h.known and r.verdict == "violation" and known.get(r.h.name):
            r.status = "success"  # expected outcome; keep failed_checks for the record
            r.covers_total = max(r.covers_total, 1)
            r.covers_sat = r.covers_total
    write_evidence(prop, tier, seed, ordered, time.time() - t0, cmds, known_lines, [c[0] for c in confirmed], inconclusive)
    for r in (unreplayed if confirmed else []):
        print("  also failing (not replayed separately): %s: %s" % (r.h.name, "; ".join(r.failed_checks[:2])))
    for r, path, reproduced in confirmed:
        print("VIOLATION property=%s replay=%s" % (prop, path))
        print("  harness %s failed: %s%s" % (r.h.name, "; ".join(r.failed_checks[:4]),
                                             "" if reproduced else " (native playback unavailable)"))
        rc = 1
    if rc == 0 and inconclusive:
        for s in inconclusive:
            print("INCONCLUSIVE %s" % s)
        rc = 2
    print("%s %s: %d harnesses, %d discharged, %d known findings, %d violations, %d inconclusive, %.0fs" % (
        prop, tier, len(ordered), sum(1 for r in ordered if r.verdict == "pass"), len(known_lines), len(confirmed),
        len(inconclusive), time.time() - t0))
    return rc


def replay(path):
    info = json.load(open(path))
    prepare()
    allh = hreg.load(os.path.join(ROOT, "kani", "harness"))
    h = [x for x in allh if x.full_name == info["harness"]]
    if not h or not info.get("playback_test"):
        print("nothing to replay in", path)
        return 2
    reproduced, detail = native_playback(h[0], info["playback_test"])
    print(detail)
    print("reproduced natively:", reproduced)
    return 1 if reproduced else (0 if reproduced is False else 2)


def main():
    a = sys.argv[1:]
    if not a:
        print(__doc__)
        return 2
    if a[0] == "--setup":
        return setup()
    if a[0] == "--replay":
        return replay(a[1])
    if a[0] == "--list":
        for h in hreg.load(os.path.join(ROOT, "kani", "harness")):
            print("%-10s %-9s %-50s %s" % (",".join(h.props), h.tier, h.name, h.known or ""))
        return 0
    tier = a[1] if len(a) > 1 else os.environ.get("VERIF_TIER", "quick")
    return check(a[0], tier)


if __name__ == "__main__":
    sys.exit(main())
