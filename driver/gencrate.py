"""Generates the Kani build crate: a Cargo package whose [lib] is /repo/remoc/src/lib.rs itself.

The package manifest is derived on every run from /repo/remoc/Cargo.toml (so dependency or
feature edits in the repository are picked up), with
  * workspace-inherited keys made literal,
  * dev-dependencies dropped,
  * tokio / tokio-util patched to the models in /verif/models,
  * tracing replaced by a no-op model (log output is not the subject; real tracing crashes the Kani compiler),
  * the harness entry file named through REMOC_VERIF_HARNESS (see remoc/src/lib.rs hook).
"""
import os
import re
import shutil
import tomllib

REPO = os.environ.get("REMOC_REPO", "/repo")


def generate(verif_root: str, crate_dir: str) -> dict:
    os.makedirs(crate_dir, exist_ok=True)
    root = tomllib.load(open(os.path.join(REPO, "Cargo.toml"), "rb"))
    wp = root.get("workspace", {}).get("package", {})
    src = open(os.path.join(REPO, "remoc", "Cargo.toml")).read()

    def lit(v):
        if isinstance(v, str):
            return '"%s"' % v
        if isinstance(v, list):
            return "[" + ", ".join(lit(x) for x in v) + "]"
        return str(v)

    out_lines = []
    skip = False
    for line in src.splitlines():
        m = re.match(r"^\[(.+)\]\s*$", line)
        if m:
            sec = m.group(1)
            skip = sec.endswith("dev-dependencies") or sec.startswith("package.metadata")
        if skip:
            continue
        m = re.match(r"^(\w[\w-]*)\s*=\s*\{\s*workspace\s*=\s*true\s*\}\s*$", line)
        if m and m.group(1) in wp:
            line = "%s = %s" % (m.group(1), lit(wp[m.group(1)]))
        line = line.replace('path = "../remoc_macro"', 'path = "%s/remoc_macro"' % REPO)
        out_lines.append(line)
    text = "\n".join(out_lines)
    text += """

# ---- appended by /verif/driver/gencrate.py ----
[lib]
path = "%(repo)s/remoc/src/lib.rs"

[workspace]

[patch.crates-io]
tokio = { path = "%(verif)s/models/tokio" }
tokio-util = { path = "%(verif)s/models/tokio-util" }
tracing = { path = "%(verif)s/models/tracing" }
tracing-attributes = { path = "%(verif)s/models/tracing-attributes" }
""" % {"repo": REPO, "verif": verif_root}
    # make sure cfg(kani) / cfg(remoc_verif) do not warn
    text = text.replace(
        "check-cfg = ['cfg(wasm_bindgen_unstable_test_coverage)']",
        "check-cfg = ['cfg(wasm_bindgen_unstable_test_coverage)', 'cfg(kani)', 'cfg(remoc_verif)']",
    )
    manifest = os.path.join(crate_dir, "Cargo.toml")
    old = open(manifest).read() if os.path.exists(manifest) else None
    if old != text:
        open(manifest, "w").write(text)
    lock_src = os.path.join(verif_root, "kani", "Cargo.lock")
    lock_dst = os.path.join(crate_dir, "Cargo.lock")
    if os.path.exists(lock_src) and not os.path.exists(lock_dst):
        shutil.copy(lock_src, lock_dst)
    entry = os.path.join(crate_dir, "harness_entry.rs")
    entry_text = (
        "// generated: pulls the harness tree into the remoc crate (cfg(remoc_verif) only)\n"
        "#[cfg(kani)]\n#[path = \"%s/kani/harness/mod.rs\"]\nmod verif_harness;\n" % verif_root
    )
    if not os.path.exists(entry) or open(entry).read() != entry_text:
        open(entry, "w").write(entry_text)
    return {"manifest": manifest, "entry": entry}


if __name__ == "__main__":
    import sys

    here = os.path.dirname(os.path.dirname(os.path.abspath(__file__)))
    print(generate(here, sys.argv[1] if len(sys.argv) > 1 else os.path.join(here, ".work", "crate")))
