"""Harness registry: parsed from the doc-comment tags in /verif/kani/harness/*.rs.

Tags (one per `///` line, directly above `#[kani::proof]`):
  @prop C02 [C03 ...]   properties the harness contributes to
  @tier quick|thorough
  @fn   <real remoc function(s) executed symbolically>
  @bounds <symbolic inputs and their bounds>
  @outside <what lies outside the claim>
  @known <finding id>   the harness is the reproducer of a recorded known finding and is EXPECTED to fail
  @cap <seconds>        wall cap for this harness (default per tier)
  @mem <GB>             address-space cap for CBMC (default 12)
Free `///` text is the description.
"""
import glob
import os
import re


class Harness:
    def __init__(self):
        self.name = ""
        self.module = ""
        self.file = ""
        self.props = []
        self.tier = "quick"
        self.fns = []
        self.bounds = []
        self.outside = []
        self.known = None
        self.cap = None
        self.mem = None
        self.desc = []
        self.unwind = None
        self.stubs = []

    @property
    def full_name(self):
        return "verif_harness::%s::%s" % (self.module, self.name)

    def to_json(self):
        return {
            "harness": self.name,
            "file": os.path.basename(self.file),
            "tier": self.tier,
            "functions_encoded": self.fns,
            "bounds": " ; ".join(self.bounds),
            "unwind": self.unwind,
            "stubs": self.stubs,
            "outside": " ; ".join(self.outside),
            "description": " ".join(self.desc),
            "known_finding": self.known,
        }


def load(harness_dir):
    out = []
    for path in sorted(glob.glob(os.path.join(harness_dir, "*.rs"))):
        module = os.path.splitext(os.path.basename(path))[0]
        if module in ("mod", "util"):
            continue
        lines = open(path).read().splitlines()
        i = 0
        while i < len(lines):
            if lines[i].strip() == "#[kani::proof]":
                h = Harness()
                h.module = module
                h.file = path
                # walk back over doc comments
                j = i - 1
                docs = []
                while j >= 0 and lines[j].strip().startswith("///"):
                    docs.append(lines[j].strip()[3:].strip())
                    j -= 1
                docs.reverse()
                for d in docs:
                    m = re.match(r"@(\w+)\s*(.*)", d)
                    if not m:
                        if d:
                            h.desc.append(d)
                        continue
                    k, v = m.group(1), m.group(2).strip()
                    if k == "prop":
                        h.props += v.split()
                    elif k == "tier":
                        h.tier = v
                    elif k == "fn":
                        h.fns.append(v)
                    elif k == "bounds":
                        h.bounds.append(v)
                    elif k == "outside":
                        h.outside.append(v)
                    elif k == "known":
                        h.known = v
                    elif k == "cap":
                        h.cap = int(v)
                    elif k == "mem":
                        h.mem = int(v)
                # walk forward over attributes to the fn
                k = i + 1
                while k < len(lines):
                    s = lines[k].strip()
                    m = re.match(r"#\[kani::unwind\((\d+)\)\]", s)
                    if m:
                        h.unwind = int(m.group(1))
                    m = re.match(r"#\[kani::stub\(([^,]+),\s*([^)]+)\)\]", s)
                    if m:
                        h.stubs.append("%s -> %s" % (m.group(1).strip(), m.group(2).strip()))
                    m = re.match(r"(pub(\(crate\))?\s+)?fn\s+(\w+)\s*\(", s)
                    if m:
                        h.name = m.group(3)
                        break
                    k += 1
                if h.name:
                    out.append(h)
                i = k
            i += 1
    return out
