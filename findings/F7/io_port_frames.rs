//! Port requests travel inside the PortData message itself (4 bytes per port number plus
//! 4 bytes per port id, appended to the 6 byte message header) and not in a separate frame.
//! On a stream transport (length-prefixed framing) an endpoint must thus accept message frames
//! that are longer than its chunk size, as long as they respect the limit of chunk size plus
//! maximum message length published by `Cfg::max_frame_length`.

use std::time::Duration;
use tokio::time::timeout;

use remoc::{
    exec,
    rch::{base, mpsc},
};

const CHUNK_SIZE: u32 = 64;

fn cfg() -> remoc::Cfg {
    remoc::Cfg { chunk_size: CHUNK_SIZE, receive_buffer: 4096, ..Default::default() }
}

type Item = Vec<mpsc::Sender<usize>>;

#[tokio::test]
async fn port_data_frames_over_stream_transport() {
    crate::init();

    let (a_io, b_io) = tokio::io::duplex(65_536);
    let (a_read, a_write) = tokio::io::split(a_io);
    let (b_read, b_write) = tokio::io::split(b_io);

    let (a, b) = tokio::join!(
        remoc::Connect::io(cfg(), a_read, a_write),
        remoc::Connect::io(cfg(), b_read, b_write)
    );
    let (a_conn, mut a_tx, _a_rx): (_, base::Sender<Item>, base::Receiver<Item>) = a.unwrap();
    let (b_conn, _b_tx, mut b_rx): (_, base::Sender<Item>, base::Receiver<Item>) = b.unwrap();
    exec::spawn(async move {
        if let Err(err) = a_conn.await {
            println!("connection A failed: {err}");
        }
    });
    exec::spawn(async move {
        if let Err(err) = b_conn.await {
            println!("connection B failed: {err}");
        }
    });

    // Send n channel halves in one message, i.e. one PortData message of 6 + 8 * n bytes.
    // chunk_size 64 lets the sender put up to 16 ports into one message (4 credits each): 6 + 8 * 16 = 134 bytes.
    for n in 1..=16usize {
        println!("sending {n} ports in one message: PortData frame of {} bytes", 6 + 8 * n);

        let mut rxs = Vec::new();
        let mut txs = Vec::new();
        for _ in 0..n {
            let (tx, rx) = mpsc::channel::<usize, _>(1);
            txs.push(tx);
            rxs.push(rx);
        }

        a_tx.send(txs).await.unwrap();

        let txs = timeout(Duration::from_secs(10), b_rx.recv())
            .await
            .expect("timeout receiving ports")
            .expect("receiving ports failed")
            .expect("connection closed");
        assert_eq!(txs.len(), n);

        for (i, tx) in txs.into_iter().enumerate() {
            tx.send(i).await.unwrap();
        }
        for (i, mut rx) in rxs.into_iter().enumerate() {
            let value = timeout(Duration::from_secs(10), rx.recv()).await.expect("timeout").unwrap();
            assert_eq!(value, Some(i));
        }
    }
}
