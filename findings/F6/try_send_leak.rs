//! Native demonstration of finding F6 (property C03): `chmux::Sender::try_send` takes the credits
//! of a chunk out of its assignment *before* the shared event queue accepts the frame.  When the queue
//! is full the frame is dropped and its credits are lost for good: after a few such failures the port
//! holds fewer credits than the peer advertised, and once they fall below the peer's return threshold
//! a send never completes although the receiver has consumed everything.
//!
//! Wire into remoc/tests/chmux/mod.rs with `mod try_send_leak;` and run
//!   cargo test --offline -p remoc --test tests -- chmux::try_send_leak

use bytes::Bytes;
use futures::{future::try_join, stream::StreamExt};
use std::time::Duration;

use crate::loop_transport;
use remoc::{
    chmux::{self, TrySendError},
    exec,
    exec::time::{sleep, timeout},
};

fn cfg() -> chmux::Cfg {
    chmux::Cfg { chunk_size: 4, receive_buffer: 16, shared_send_queue: 1, ..Default::default() }
}

// Single-threaded runtime: the multiplexer task cannot drain the shared send queue while the
// synchronous `try_send` is queueing its chunks.
#[tokio::test]
async fn failed_try_send_must_not_leak_credits() {
    crate::init();

    loop_transport!(0, a_tx, a_rx, b_tx, b_rx);
    let ((a_mux, a_client, _a_server), (b_mux, _b_client, mut b_server)) =
        try_join(chmux::ChMux::new(cfg(), a_tx, a_rx), chmux::ChMux::new(cfg(), b_tx, b_rx)).await.unwrap();
    exec::spawn(async move {
        let _ = a_mux.run().await;
    });
    exec::spawn(async move {
        let _ = b_mux.run().await;
    });

    let ((mut a_tx, _a_rx), b_accepted) = try_join(
        async { a_client.connect().await.map_err(|err| err.to_string()) },
        async { b_server.accept().await.map_err(|err| err.to_string()) },
    )
    .await
    .unwrap();
    let (_b_tx, mut b_rx) = b_accepted.unwrap();

    // B consumes everything that arrives, for the whole test.
    let (got_tx, mut got_rx) = tokio::sync::mpsc::unbounded_channel();
    exec::spawn(async move {
        while let Ok(Some(msg)) = b_rx.recv().await {
            let _ = got_tx.send(Vec::from(msg));
        }
    });
    sleep(Duration::from_millis(100)).await;

    // Three try_sends of two chunks each: the shared queue (length 1) takes the first chunk and
    // refuses the second one.  Each failure must leave the credits of the refused chunk with the port.
    for _ in 0..3 {
        let res = a_tx.try_send(&Bytes::from_static(&[7; 8]));
        assert!(matches!(res, Err(TrySendError::Full)), "unexpected try_send result: {res:?}");
        // the accepted chunk travels to B and is consumed there
        sleep(Duration::from_millis(100)).await;
    }

    // B has consumed every byte that was put on the wire, so the port must be able to send again.
    let sent = timeout(Duration::from_secs(2), a_tx.send(Bytes::from_static(&[1, 2, 3]))).await;
    assert!(
        matches!(sent, Ok(Ok(()))),
        "send is stuck although the receiver consumed everything: credits were leaked by the failed try_sends ({sent:?})"
    );
    let got = timeout(Duration::from_secs(2), got_rx.recv()).await;
    assert_eq!(got.ok().flatten(), Some(vec![1, 2, 3]));
}
